package main

// A-MAP: map-iteration-order effects (C08-R2).
//
// Every `range` over a map in non-test module code is classified by the effects of its
// body.  Order-insensitive effects (E0) discharge themselves; appending to a slice (E1)
// creates the obligation that the slice is sorted by a total order before any other use;
// everything else must be covered by a reviewed exception (with the invariant relied on),
// or is a violation.

import (
	"fmt"
	"go/ast"
	"go/token"
	"go/types"
	"strings"

	"golang.org/x/tools/go/packages"
)

type mapSite struct {
	pkg     *packages.Package
	fn      string
	rng     *ast.RangeStmt
	expr    string
	issues  []string // order-sensitive effects that are not E1
	appends []string // slice variables appended to (E1)
	stack   []ast.Node
}

// key identifies a site without using local names: the function plus, for a field selector,
// the owner type and field, otherwise the type of the ranged map.
func (s *mapSite) key() string { return s.fn + ":range " + s.stableExpr() }

func (s *mapSite) stableExpr() string {
	if sel, ok := s.rng.X.(*ast.SelectorExpr); ok {
		if tv, ok := s.pkg.TypesInfo.Types[sel.X]; ok && tv.Type != nil {
			t := tv.Type
			if pt, ok := t.Underlying().(*types.Pointer); ok {
				t = pt.Elem()
			}
			if _, isStruct := t.Underlying().(*types.Struct); isStruct {
				return typeShort(t) + "." + sel.Sel.Name
			}
		}
		// package-qualified identifier (a package-level map)
		return s.expr
	}
	if id, ok := s.rng.X.(*ast.Ident); ok {
		if obj := s.pkg.TypesInfo.Uses[id]; obj != nil {
			if obj.Parent() == obj.Pkg().Scope() {
				return id.Name // package-level variable: its name is the stable identity
			}
		}
	}
	if tv, ok := s.pkg.TypesInfo.Types[s.rng.X]; ok && tv.Type != nil {
		return typeShort(tv.Type)
	}
	return s.expr
}

func collectMapSites(p *Program) []*mapSite {
	var out []*mapSite
	for _, pk := range p.Pkgs {
		for _, file := range pk.Syntax {
			var stack []ast.Node
			ast.Inspect(file, func(n ast.Node) bool {
				if n == nil {
					stack = stack[:len(stack)-1]
					return true
				}
				stack = append(stack, n)
				rs, ok := n.(*ast.RangeStmt)
				if !ok {
					return true
				}
				tv, ok := pk.TypesInfo.Types[rs.X]
				if !ok {
					return true
				}
				if _, isMap := tv.Type.Underlying().(*types.Map); !isMap {
					return true
				}
				s := &mapSite{pkg: pk, rng: rs, expr: exprStr(p.Fset, rs.X), fn: typeShortPkg(pk) + "." + enclosingFuncName(pk, rs.Pos())}
				s.stack = append([]ast.Node{}, stack...)
				cl := &bodyClassifier{site: s, info: pk.TypesInfo, fset: p.Fset}
				if id, ok := rs.Key.(*ast.Ident); ok {
					cl.loopVars = append(cl.loopVars, id.Name)
				}
				if id, ok := rs.Value.(*ast.Ident); ok {
					cl.loopVars = append(cl.loopVars, id.Name)
				}
				cl.locals = map[string]bool{}
				cl.block(rs.Body.List)
				out = append(out, s)
				return true
			})
		}
	}
	return out
}

func typeShortPkg(pk *packages.Package) string { return pk.Types.Name() }

type bodyClassifier struct {
	site     *mapSite
	info     *types.Info
	fset     *token.FileSet
	loopVars []string
	locals   map[string]bool // variables declared inside the loop body
	depth    int             // nesting of callee bodies classified in place
}

func (b *bodyClassifier) issue(pos token.Pos, format string, args ...interface{}) {
	b.site.issues = append(b.site.issues, fmt.Sprintf(format, args...))
}

func (b *bodyClassifier) isInt(e ast.Expr) bool {
	tv, ok := b.info.Types[e]
	if !ok {
		return false
	}
	bt, ok := tv.Type.Underlying().(*types.Basic)
	return ok && bt.Info()&types.IsInteger != 0
}

func (b *bodyClassifier) isConstExpr(e ast.Expr) bool {
	tv, ok := b.info.Types[e]
	if ok && tv.Value != nil {
		return true
	}
	if id, ok := e.(*ast.Ident); ok && (id.Name == "nil" || id.Name == "true" || id.Name == "false") {
		return true
	}
	return false
}

func (b *bodyClassifier) mentionsLocal(e ast.Node) bool {
	for v := range b.locals {
		if mentionsIdent(e, v) {
			return true
		}
	}
	return false
}

func (b *bodyClassifier) mentionsLoopVar(e ast.Node) bool {
	for _, v := range b.loopVars {
		if mentionsIdent(e, v) {
			return true
		}
	}
	return false
}

func (b *bodyClassifier) isLocal(e ast.Expr) bool {
	switch x := e.(type) {
	case *ast.Ident:
		return b.locals[x.Name] || x.Name == "_"
	case *ast.SelectorExpr:
		return b.isLocal(x.X)
	case *ast.IndexExpr:
		return b.isLocal(x.X)
	}
	return false
}

func (b *bodyClassifier) block(stmts []ast.Stmt) {
	for _, s := range stmts {
		b.stmt(s)
	}
}

func (b *bodyClassifier) stmt(s ast.Stmt) {
	switch st := s.(type) {
	case *ast.BlockStmt:
		b.block(st.List)
	case *ast.IfStmt:
		if st.Init != nil {
			b.stmt(st.Init)
		}
		b.expr(st.Cond)
		b.block(st.Body.List)
		if st.Else != nil {
			b.stmt(st.Else)
		}
	case *ast.SwitchStmt:
		if st.Init != nil {
			b.stmt(st.Init)
		}
		if st.Tag != nil {
			b.expr(st.Tag)
		}
		for _, cc := range st.Body.List {
			b.block(cc.(*ast.CaseClause).Body)
		}
	case *ast.ForStmt:
		if st.Init != nil {
			b.stmt(st.Init)
		}
		if st.Post != nil {
			b.stmt(st.Post)
		}
		b.block(st.Body.List)
	case *ast.RangeStmt:
		// a nested loop: its loop variables are local; a nested map range is classified
		// as its own site too, but its effects also belong to the outer loop
		if id, ok := st.Key.(*ast.Ident); ok && st.Tok == token.DEFINE {
			b.locals[id.Name] = true
		}
		if id, ok := st.Value.(*ast.Ident); ok && st.Tok == token.DEFINE {
			b.locals[id.Name] = true
		}
		b.block(st.Body.List)
	case *ast.DeclStmt:
		if gd, ok := st.Decl.(*ast.GenDecl); ok {
			for _, sp := range gd.Specs {
				if vs, ok := sp.(*ast.ValueSpec); ok {
					for _, n := range vs.Names {
						b.locals[n.Name] = true
					}
					for _, v := range vs.Values {
						b.expr(v)
					}
				}
			}
		}
	case *ast.IncDecStmt:
		if !b.isInt(st.X) && !b.isLocal(st.X) {
			b.issue(st.Pos(), "non-integer ++/-- on %s", exprStr(b.fset, st.X))
		}
	case *ast.AssignStmt:
		b.assign(st)
	case *ast.ExprStmt:
		b.exprStmt(st.X)
	case *ast.BranchStmt:
		switch st.Tok {
		case token.CONTINUE:
		case token.BREAK:
			b.issue(st.Pos(), "E3 early exit: break")
		default:
			b.issue(st.Pos(), "E3 early exit: %s", st.Tok)
		}
	case *ast.ReturnStmt:
		allConst := true
		for _, r := range st.Results {
			if !b.isConstExpr(r) {
				allConst = false
			}
		}
		if allConst {
			// existence test: returns a constant as soon as any element qualifies
			return
		}
		b.issue(st.Pos(), "E3 early exit: return %s", exprStr(b.fset, st))
	case *ast.LabeledStmt:
		b.stmt(st.Stmt)
	case *ast.EmptyStmt:
	case *ast.GoStmt:
		b.issue(st.Pos(), "go statement in map range")
	case *ast.DeferStmt:
		b.issue(st.Pos(), "defer in map range")
	default:
		b.issue(s.Pos(), "unclassified statement %T", s)
	}
}

func (b *bodyClassifier) assign(st *ast.AssignStmt) {
	for _, r := range st.Rhs {
		b.expr(r)
	}
	if st.Tok == token.DEFINE {
		for _, l := range st.Lhs {
			if id, ok := l.(*ast.Ident); ok {
				b.locals[id.Name] = true
			}
		}
		return
	}
	for i, l := range st.Lhs {
		if b.isLocal(l) {
			continue
		}
		var rhs ast.Expr
		if len(st.Rhs) == len(st.Lhs) {
			rhs = st.Rhs[i]
		}
		switch st.Tok {
		case token.ADD_ASSIGN, token.SUB_ASSIGN, token.OR_ASSIGN, token.AND_ASSIGN, token.XOR_ASSIGN:
			if b.isInt(l) {
				continue // commutative, associative integer accumulation
			}
			if tv, ok := b.info.Types[l]; ok {
				if bt, ok := tv.Type.Underlying().(*types.Basic); ok && bt.Info()&types.IsFloat != 0 {
					b.issue(st.Pos(), "E4 floating-point accumulation into %s in map order", exprStr(b.fset, l))
					continue
				}
				if bt, ok := tv.Type.Underlying().(*types.Basic); ok && bt.Info()&types.IsString != 0 {
					b.issue(st.Pos(), "E2 string concatenation into %s in map order", exprStr(b.fset, l))
					continue
				}
			}
			b.issue(st.Pos(), "compound assignment to %s", exprStr(b.fset, l))
		case token.ASSIGN:
			// x = append(x, …)  → E1
			if call, ok := rhs.(*ast.CallExpr); ok {
				if id, ok := call.Fun.(*ast.Ident); ok && id.Name == "append" && len(call.Args) > 0 {
					if exprStr(b.fset, call.Args[0]) == exprStr(b.fset, l) {
						if ix, ok := l.(*ast.IndexExpr); ok && b.isRangeKey(ix.Index) {
							// m[k] = append(m[k], v) with k the range key itself: every
							// iteration extends a different entry, so iteration order is invisible
							continue
						}
						b.site.appends = append(b.site.appends, exprStr(b.fset, l))
						continue
					}
				}
			}
			// keyed write: m[f(k)] = v
			if ix, ok := l.(*ast.IndexExpr); ok {
				if tv, ok := b.info.Types[ix.X]; ok {
					if _, isMap := tv.Type.Underlying().(*types.Map); isMap {
						if b.mentionsLoopVar(ix.Index) || b.indexDerivedFromLoop(ix.Index) {
							continue
						}
						if u, ok := ix.Index.(*ast.UnaryExpr); ok && u.Op == token.AND {
							if _, ok := u.X.(*ast.CompositeLit); ok {
								continue // fresh unique key: the map is used as a bag
							}
						}
						b.issue(st.Pos(), "E5 map write %s whose key does not derive from the loop variables (last/first wins)", exprStr(b.fset, l))
						continue
					}
					// slice element keyed by loop var
					if b.mentionsLoopVar(ix.Index) {
						continue
					}
					if _, isSlice := tv.Type.Underlying().(*types.Slice); isSlice {
						// x[i] = v with a running index: fills x in map order, like append
						b.site.appends = append(b.site.appends, exprStr(b.fset, ix.X))
						continue
					}
				}
			}
			if rhs != nil && b.isConstExpr(rhs) {
				continue // flag set to a constant
			}
			// x = x || cond ; x = x && cond
			if be, ok := rhs.(*ast.BinaryExpr); ok && (be.Op == token.LOR || be.Op == token.LAND) && exprStr(b.fset, be.X) == exprStr(b.fset, l) {
				continue
			}
			// field of the loop value: v.f = …  (keyed by the element)
			if b.rootedAtLoopVar(l) {
				continue
			}
			b.issue(st.Pos(), "E3 last-wins assignment %s = %s", exprStr(b.fset, l), exprStr(b.fset, rhs))
		default:
			b.issue(st.Pos(), "assignment operator %s on %s", st.Tok, exprStr(b.fset, l))
		}
	}
}

func (b *bodyClassifier) isRangeKey(e ast.Expr) bool {
	id, ok := e.(*ast.Ident)
	if !ok {
		return false
	}
	k, ok := b.site.rng.Key.(*ast.Ident)
	return ok && k.Name == id.Name
}

func (b *bodyClassifier) indexDerivedFromLoop(e ast.Expr) bool {
	// index built from locals that were themselves computed from loop vars inside the body
	found := false
	ast.Inspect(e, func(n ast.Node) bool {
		if id, ok := n.(*ast.Ident); ok && b.locals[id.Name] {
			found = true
		}
		return !found
	})
	return found
}

func (b *bodyClassifier) rootedAtLoopVar(e ast.Expr) bool {
	for {
		switch x := e.(type) {
		case *ast.SelectorExpr:
			e = x.X
		case *ast.IndexExpr:
			e = x.X
		case *ast.StarExpr:
			e = x.X
		case *ast.ParenExpr:
			e = x.X
		case *ast.Ident:
			for _, v := range b.loopVars {
				if x.Name == v {
					return true
				}
			}
			return false
		default:
			return false
		}
	}
}

// orderInsensitiveCalls: statement-level calls whose effect does not depend on call order.
var orderInsensitiveCalls = map[string]string{
	"delete": "keyed delete",
	"clear":  "clear",
}

func (b *bodyClassifier) exprStmt(e ast.Expr) {
	call, ok := e.(*ast.CallExpr)
	if !ok {
		b.expr(e)
		return
	}
	name := exprStr(b.fset, call.Fun)
	if _, ok := orderInsensitiveCalls[name]; ok {
		return
	}
	for _, a := range call.Args {
		b.expr(a)
	}
	switch {
	case (name == "copy" || totalSorts[name]) && len(call.Args) > 0 && b.isLocal(call.Args[0]):
		return // writes a variable that lives inside one iteration
	case strings.HasSuffix(name, ".Close") && len(call.Args) == 0:
		return // releasing every element; no ordered effect on pprof's output
	}
	if strings.HasPrefix(name, "fmt.Fp") || strings.HasPrefix(name, "fmt.Print") || strings.HasSuffix(name, ".PrintErr") || strings.HasSuffix(name, ".Print") || strings.HasSuffix(name, ".Write") || strings.HasSuffix(name, ".WriteString") {
		b.issue(call.Pos(), "E2 ordered output %s(…) once per map element", name)
		return
	}
	// a local closure (or a function of the same package): classify its body as if it were
	// written in place, with its parameters standing for values of the current element
	if body, params := b.calleeBody(call); body != nil && b.depth < 2 {
		inner := &bodyClassifier{site: b.site, info: b.info, fset: b.fset, depth: b.depth + 1, locals: map[string]bool{}}
		inner.loopVars = append([]string{}, b.loopVars...)
		// a parameter stands for a value of the current element only when the argument bound
		// to it is one (mentions a loop variable or a variable declared in the loop body); the
		// receiver (listed after the parameters) is bound to the selector's operand
		args := append([]ast.Expr{}, call.Args...)
		if sel, ok := call.Fun.(*ast.SelectorExpr); ok && len(params) == len(call.Args)+1 {
			args = append(args, sel.X)
		}
		for i, pn := range params {
			if i < len(args) && (b.mentionsLoopVar(args[i]) || b.mentionsLocal(args[i])) {
				inner.loopVars = append(inner.loopVars, pn)
			}
		}
		inner.block(body.List)
		return
	}
	b.issue(call.Pos(), "E6 call statement %s(…) with effects the classifier has no summary for", name)
}

// calleeBody: the body of the function literal a call statement invokes through a local
// variable, or of a package-level function of the same package; with its parameter names.
func (b *bodyClassifier) calleeBody(call *ast.CallExpr) (*ast.BlockStmt, []string) {
	var obj types.Object
	switch fun := call.Fun.(type) {
	case *ast.Ident:
		obj = b.info.Uses[fun]
	case *ast.SelectorExpr:
		// a method of the same package, called on a value of the current element
		obj = b.info.Uses[fun.Sel]
		if fn, isFn := obj.(*types.Func); !isFn || fn.Pkg() == nil || fn.Pkg() != b.site.pkg.Types {
			return nil, nil
		}
	}
	if obj == nil {
		return nil, nil
	}
	names := func(ft *ast.FuncType) []string {
		var out []string
		if ft.Params != nil {
			for _, f := range ft.Params.List {
				for _, n := range f.Names {
					out = append(out, n.Name)
				}
			}
		}
		return out
	}
	var body *ast.BlockStmt
	var params []string
	for _, file := range b.site.pkg.Syntax {
		ast.Inspect(file, func(n ast.Node) bool {
			if body != nil {
				return false
			}
			switch x := n.(type) {
			case *ast.AssignStmt:
				for i, l := range x.Lhs {
					if lid, ok := l.(*ast.Ident); ok && (b.info.Defs[lid] == obj || b.info.Uses[lid] == obj) && i < len(x.Rhs) {
						if fl, ok := x.Rhs[i].(*ast.FuncLit); ok {
							body, params = fl.Body, names(fl.Type)
						}
					}
				}
			case *ast.FuncDecl:
				if b.info.Defs[x.Name] == obj && x.Body != nil {
					body, params = x.Body, names(x.Type)
					if x.Recv != nil {
						for _, f := range x.Recv.List {
							for _, n := range f.Names {
								params = append(params, n.Name)
							}
						}
					}
				}
			}
			return true
		})
	}
	return body, params
}

// expr looks for effects hidden in expressions (function literals, calls known to print).
func (b *bodyClassifier) expr(e ast.Expr) {
	if e == nil {
		return
	}
	ast.Inspect(e, func(n ast.Node) bool {
		switch x := n.(type) {
		case *ast.FuncLit:
			return false
		case *ast.CallExpr:
			name := exprStr(b.fset, x.Fun)
			if strings.HasPrefix(name, "fmt.Fp") || strings.HasPrefix(name, "fmt.Print") || strings.HasSuffix(name, ".PrintErr") || strings.HasSuffix(name, ".Print") || strings.HasSuffix(name, ".Write") || strings.HasSuffix(name, ".WriteString") {
				b.issue(x.Pos(), "E2 ordered output %s(…) per map element", name)
			}
		}
		return true
	})
}

// ---------------------------------------------------------------------------
// E1: the slice must be sorted before any other use

// sortAfter looks at the statements that follow the range statement in its enclosing
// blocks and reports how the first later use of slice variable v treats it.
func (s *mapSite) sortAfter(p *Program, v string) (how string, ok bool) {
	var child ast.Node = s.rng
	for i := len(s.stack) - 2; i >= 0; i-- {
		parent := s.stack[i]
		var list []ast.Stmt
		switch x := parent.(type) {
		case *ast.BlockStmt:
			list = x.List
		case *ast.CaseClause:
			list = x.Body
		case *ast.FuncDecl, *ast.FuncLit:
			return "", false
		}
		if list != nil {
			idx := -1
			for k, st := range list {
				if st == child {
					idx = k
				}
			}
			if how, ok, found := firstUseIsSort(p, list[idx+1:], v); found {
				return how, ok
			}
		}
		child = parent
	}
	return "", false
}

// firstUseIsSort scans stmts in order; found reports whether v is used at all.
func firstUseIsSort(p *Program, stmts []ast.Stmt, v string) (how string, ok bool, found bool) {
	for k, st := range stmts {
		if !mentionsExpr(p, st, v) {
			continue
		}
		if ifs, isIf := st.(*ast.IfStmt); isIf && (ifs.Init == nil || !mentionsExpr(p, ifs.Init, v)) && !mentionsExpr(p, ifs.Cond, v) {
			h1, ok1, f1 := firstUseIsSort(p, ifs.Body.List, v)
			h2, ok2, f2 := "", true, false
			if ifs.Else != nil {
				switch e := ifs.Else.(type) {
				case *ast.BlockStmt:
					h2, ok2, f2 = firstUseIsSort(p, e.List, v)
				default:
					h2, ok2, f2 = firstUseIsSort(p, []ast.Stmt{e}, v)
				}
			}
			if (f1 && !ok1) || (f2 && !ok2) {
				if f1 && !ok1 {
					return h1, false, true
				}
				return h2, false, true
			}
			if f1 && f2 {
				return h1 + " | " + h2, true, true
			}
			// some path through the if does not touch v: what follows must sort too
			h3, ok3, f3 := firstUseIsSort(p, stmts[k+1:], v)
			if !f3 {
				return "one branch leaves " + v + " unsorted and it is not used afterwards", true, true
			}
			return h1 + h2 + " | " + h3, ok3, true
		}
		how, ok := classifyFirstUse(p, st, v)
		return how, ok, true
	}
	return "", false, false
}

func mentionsExpr(p *Program, n ast.Node, v string) bool {
	found := false
	ast.Inspect(n, func(m ast.Node) bool {
		if _, isLit := m.(*ast.FuncLit); isLit {
			// defining a closure does not use the slice; the closures that matter here are
			// the comparators handed to the sort that follows
			return false
		}
		if call, ok := m.(*ast.CallExpr); ok {
			if id, ok := call.Fun.(*ast.Ident); ok && id.Name == "len" && len(call.Args) == 1 && exprStr(p.Fset, call.Args[0]) == v {
				return false // the length does not depend on the order
			}
		}
		if e, ok := m.(ast.Expr); ok && !found {
			switch e.(type) {
			case *ast.Ident, *ast.SelectorExpr, *ast.IndexExpr:
				if exprStr(p.Fset, e) == v {
					found = true
				}
			}
		}
		return !found
	})
	return found
}

var totalSorts = map[string]bool{"sort.Strings": true, "sort.Ints": true, "sort.Float64s": true, "slices.Sort": true}

// sortCallOn: is call a recognised sort whose sorted operand is v?
func sortCallOn(p *Program, call *ast.CallExpr, v string) (string, bool) {
	name := exprStr(p.Fset, call.Fun)
	argIs := func(i int) bool {
		if i >= len(call.Args) {
			return false
		}
		a := call.Args[i]
		if exprStr(p.Fset, a) == v {
			return true
		}
		// wrappers: T(v), T{v, …}
		if c2, ok := a.(*ast.CallExpr); ok && len(c2.Args) == 1 && exprStr(p.Fset, c2.Args[0]) == v {
			return true
		}
		if cl, ok := a.(*ast.CompositeLit); ok && len(cl.Elts) > 0 && exprStr(p.Fset, cl.Elts[0]) == v {
			return true
		}
		return false
	}
	switch {
	case totalSorts[name] && argIs(0):
		return name + " (total: equal elements are indistinguishable)", true
	case (name == "sort.Sort" || name == "sort.Stable") && argIs(0):
		return name + " with a custom comparator (shape checked by R1)", true
	case (name == "sort.Slice" || name == "sort.SliceStable") && argIs(0):
		return name + " with a literal comparator (shape checked by R1)", true
	case (name == "slices.SortFunc" || name == "slices.SortStableFunc") && argIs(0):
		return name + " with a three-way comparator", true
	case (name == "SortTags" || name == "graph.SortTags") && argIs(0):
		return "SortTags (tags.Less, checked by R1/R3)", true
	}
	if sel, ok := call.Fun.(*ast.SelectorExpr); ok && sel.Sel.Name == "Sort" && exprStr(p.Fset, sel.X) == v {
		return v + ".Sort(…) (checked by R1/R3)", true
	}
	return "", false
}

// classifyFirstUse: every occurrence of v in st must be the operand of a sort call.
func classifyFirstUse(p *Program, st ast.Stmt, v string) (string, bool) {
	// handed back to the callers as the result: every caller must sort it first
	if ret, ok := st.(*ast.ReturnStmt); ok && len(ret.Results) == 1 && exprStr(p.Fset, ret.Results[0]) == v {
		if how, ok := callersSortResult(p, ret); ok {
			return how, true
		}
	}
	var hows []string
	bad := ""
	var visit func(n ast.Node, inSort bool)
	visit = func(n ast.Node, inSort bool) {
		if n == nil || bad != "" {
			return
		}
		if as, ok := n.(*ast.AssignStmt); ok && len(as.Lhs) == 1 && len(as.Rhs) == 1 && exprStr(p.Fset, as.Lhs[0]) == v {
			// v = sort(v): the assignment target is not a use
			visit(as.Rhs[0], inSort)
			return
		}
		if call, ok := n.(*ast.CallExpr); ok {
			if id, ok := call.Fun.(*ast.Ident); ok && id.Name == "len" && len(call.Args) == 1 && exprStr(p.Fset, call.Args[0]) == v {
				return
			}
			if how, ok := sortingCalleeOn(p, call, v, 0); ok {
				hows = append(hows, how)
				return
			}
			if how, ok := sortCallOn(p, call, v); ok {
				hows = append(hows, how)
				for _, a := range call.Args[1:] {
					// comparator literals may mention v (sort.Slice(v, func… v[i] …))
					_ = a
				}
				return
			}
		}
		if e, ok := n.(ast.Expr); ok {
			switch e.(type) {
			case *ast.Ident, *ast.SelectorExpr, *ast.IndexExpr:
				if exprStr(p.Fset, e) == v {
					bad = "used unsorted in `" + truncate(exprStr(p.Fset, st), 120) + "`"
					return
				}
			}
		}
		ast.Inspect(n, func(m ast.Node) bool {
			if m == nil || m == n {
				return true
			}
			visit(m, inSort)
			return false
		})
	}
	visit(st, false)
	if bad != "" {
		return bad, false
	}
	if len(hows) == 0 {
		return "first later use is not a sort", false
	}
	return strings.Join(dedup(hows), "; "), true
}

func truncate(s string, n int) string {
	if len(s) > n {
		return s[:n] + "…"
	}
	return s
}

// calleeDecl: the declaration of the module function or method a call invokes statically.
func calleeDecl(p *Program, call *ast.CallExpr) *ast.FuncDecl {
	var id *ast.Ident
	switch fun := call.Fun.(type) {
	case *ast.Ident:
		id = fun
	case *ast.SelectorExpr:
		id = fun.Sel
	default:
		return nil
	}
	for _, pk := range p.Pkgs {
		obj := pk.TypesInfo.Uses[id]
		if obj == nil {
			continue
		}
		fn, ok := obj.(*types.Func)
		if !ok || fn.Pkg() == nil || !inModule(fn.Pkg().Path()) {
			return nil
		}
		for _, pk2 := range p.Pkgs {
			if pk2.Types != fn.Pkg() {
				continue
			}
			for _, file := range pk2.Syntax {
				for _, d := range file.Decls {
					if fd, ok := d.(*ast.FuncDecl); ok && pk2.TypesInfo.Defs[fd.Name] == obj && fd.Body != nil {
						return fd
					}
				}
			}
		}
	}
	return nil
}

// sortingCalleeOn: the call hands v (and v only once) to a module function whose first use of
// the corresponding parameter is a sort of it: the slice is sorted before anything reads it.
func sortingCalleeOn(p *Program, call *ast.CallExpr, v string, depth int) (string, bool) {
	if depth > 1 {
		return "", false
	}
	idx, n := -1, 0
	for i, a := range call.Args {
		if exprStr(p.Fset, a) == v {
			idx = i
			n++
		} else if mentionsExpr(p, a, v) {
			return "", false
		}
	}
	if n != 1 {
		return "", false
	}
	fd := calleeDecl(p, call)
	if fd == nil || fd.Type.Params == nil {
		return "", false
	}
	param, k := "", 0
	for _, fl := range fd.Type.Params.List {
		for _, nm := range fl.Names {
			if k == idx {
				param = nm.Name
			}
			k++
		}
	}
	if param == "" || param == "_" {
		return "", false
	}
	how, ok, used := firstUseIsSort(p, fd.Body.List, param)
	if !used || !ok {
		return "", false
	}
	return "sorted first thing by " + fd.Name.Name + " (" + how + ")", true
}

// callersSortResult: the function containing ret is only called in the form `x := f(…)` (or
// `x = f(…)`) and the first use of x after each such call is a sort of it.
func callersSortResult(p *Program, ret *ast.ReturnStmt) (string, bool) {
	var fd *ast.FuncDecl
	for _, pk := range p.Pkgs {
		for _, file := range pk.Syntax {
			if file.Pos() > ret.Pos() || ret.End() > file.End() {
				continue
			}
			for _, d := range file.Decls {
				if f, ok := d.(*ast.FuncDecl); ok && f.Body != nil && f.Body.Pos() <= ret.Pos() && ret.End() <= f.Body.End() {
					fd = f
				}
			}
		}
	}
	if fd == nil {
		return "", false
	}
	// the return must not sit in a function literal of fd
	inLit := false
	ast.Inspect(fd.Body, func(n ast.Node) bool {
		if fl, ok := n.(*ast.FuncLit); ok && fl.Body.Pos() <= ret.Pos() && ret.End() <= fl.Body.End() {
			inLit = true
		}
		return true
	})
	if inLit {
		return "", false
	}
	nCalls, nGood := 0, 0
	var hows []string
	for _, pk := range p.Pkgs {
		if !inModule(pk.PkgPath) {
			continue
		}
		for _, file := range pk.Syntax {
			// every call of fd …
			ast.Inspect(file, func(n ast.Node) bool {
				if call, ok := n.(*ast.CallExpr); ok && calleeDecl(p, call) == fd {
					nCalls++
				}
				return true
			})
			// … is the right-hand side of an assignment followed by a sort of the variable
			ast.Inspect(file, func(n ast.Node) bool {
				var list []ast.Stmt
				switch x := n.(type) {
				case *ast.BlockStmt:
					list = x.List
				case *ast.CaseClause:
					list = x.Body
				}
				for k, st := range list {
					as, ok := st.(*ast.AssignStmt)
					if !ok || len(as.Lhs) != 1 || len(as.Rhs) != 1 {
						continue
					}
					call, ok := as.Rhs[0].(*ast.CallExpr)
					if !ok || calleeDecl(p, call) != fd {
						continue
					}
					x := exprStr(p.Fset, as.Lhs[0])
					if how, ok, found := firstUseIsSort(p, list[k+1:], x); found && ok {
						nGood++
						hows = append(hows, how)
					}
				}
				return true
			})
		}
	}
	if nCalls == 0 || nGood != nCalls {
		return "", false
	}
	return "returned by " + fd.Name.Name + ", whose " + fmt.Sprint(nCalls) + " caller(s) sort it first (" + strings.Join(dedup(hows), "; ") + ")", true
}
