package main

import (
	"fmt"
	"go/token"
	"go/types"
	"os"
	"strings"

	"golang.org/x/tools/go/ssa"
)

func init() { register("C02", true, runC02) }

// c02GuardExceptions: index/slice sites on the parse path whose bound rests on an
// invariant the guard engine cannot derive; each confirmed by reading.
var c02GuardExceptions = map[string]string{
	"idx:profile.parseJavaHeader:var []byte[high=φ]":                                                  "nextNewLine is bytes.IndexByte(b, '\\n') of the current b and the loop runs only while it is != -1, so 0 <= nextNewLine < len(b)",
	"idx:profile.parseJavaHeader:var []byte[low=φ+1]":                                                 "same: nextNewLine < len(b), so nextNewLine+1 <= len(b)",
	"idx:profile.parseJavaSamples:var []byte[high=φ]":                                                 "nextNewLine is bytes.IndexByte(b, '\\n') of the current b and the loop runs only while it is != -1",
	"idx:profile.parseJavaSamples:var []byte[low=φ+1]":                                                "same: nextNewLine < len(b), so nextNewLine+1 <= len(b)",
	"idx:(*profile.Profile).preEncode:profile.Sample.NumUnit[…][φ+1]":                                 "NumUnit[k] is either empty (tested) or as long as NumLabel[k]: postDecode pads every unit list to the value count (checked structurally as C01-R6) and mapSample copies lists of equal length",
	"idx:(*profile.Profile).preEncode:profile.Sample.locationIDX[φ+1]":                                "s.locationIDX was just made with len(s.Location), the slice the loop ranges over",
	"idx:(*profile.Profile).postDecode:var []*profile.Location[high=len(profile.Sample.locationIDX)]": "locBuffer is allocated with the sum of len(s.locationIDX) over all samples and consumed in the same order, so at least len(s.locationIDX) elements remain",
	"idx:(*profile.Profile).postDecode:var []*profile.Location[low=len(profile.Sample.locationIDX)]":  "same invariant as the line above",
	"idx:(*profile.Profile).postDecode:profile.Sample.Location[φ+1]":                                  "s.Location was just set to locBuffer[:len(s.locationIDX)] and the loop ranges over s.locationIDX",
	"idx:(*profile.Profile).postDecode:profile.Sample.Location[φ+1]#2":                                "s.Location was just set to locBuffer[:len(s.locationIDX)] and the loop ranges over s.locationIDX",
	"idx:profile.removeLoggingInfo:param#0 string[low=*&call FindStringIndex[…]]":                     "regexp contract: a non-nil FindStringIndex result m satisfies 0 <= m[0] <= m[1] <= len(line)",
	"idx:(*profile.Profile).preEncode:profile.Profile.stringTable[*ssa.Next#2]":                       "stringTable is made with len(strings) and every value of the strings map is an index handed out by addString as len(strings) at insertion, hence < len(strings)",
	"idx:profile.parseThread:profile.Sample.Value[0]":                                                 "every sample of a thread profile is appended by parseThread itself with Value: []int64{1}",
}

// c02ExceptionHooks re-verify the producer side of reviewed invariants (see c09ExceptionHooks).
var c02ExceptionHooks = map[string]func(c *Check) string{
	"profile.parseThread": func(c *Check) string {
		// every sample parseThread appends is built with a non-empty Value
		f := c.P.Func("profile", "parseThread")
		if f == nil {
			return "parseThread not found"
		}
		g := newGuardEngine(c.P)
		n := 0
		for _, b := range f.Blocks {
			for _, ins := range b.Instrs {
				st, ok := ins.(*ssa.Store)
				if !ok {
					continue
				}
				fa, ok := st.Addr.(*ssa.FieldAddr)
				if !ok {
					continue
				}
				if T, F := fieldOf(fa.X.Type(), fa.Field); T == "profile.Sample" && F == "Value" {
					n++
					if g.minLenByConstruction(st.Val, 0) < 1 {
						return "parseThread builds a sample whose Value is not a non-empty literal"
					}
				}
			}
		}
		if n == 0 {
			return "parseThread no longer builds its samples with an explicit Value"
		}
		return ""
	},
}

func runC02(c *Check) {
	c.Explanation = "Decides structural necessary conditions of C02 on the parse path (the 130 functions of package profile reachable from ParseData, including the decoder closures and the legacy parsers): every successful return of ParseData passes through CheckValid on the returned profile (R1); the path contains no explicit panic and no non-comma-ok type assertion other than the decoder slots' own message type (R2); every index and slice expression — constant, len-k or variable — is in range by a dominating comparison, by the producer of the value, by caller-supplied slice lengths, or by a reviewed invariant (R3); wire-buffer payloads are read only after the matching wire-type check, and unknown or nil decoder slots are skipped (R4); string-table indices are range-checked in getString and dense id tables are indexed only under id < len (part of R3); the one allocation sized by decoded input is bounded by the remaining input (R6); regexp capture groups are indexed within the arity of their pattern (R7); integer divisions by input-derived values are guarded (R8). Also: the nil scans of CheckValid over the lists of a sample run for every sample (R11). Not decided: termination and promptness, and that a parsed profile can be reported without a crash (C09)."
	p := c.P
	root := c.anchorFn("C02-R1", "profile", "ParseData")
	if root == nil {
		return
	}
	parentOf, order := p.MG().Reach([]*ssa.Function{root}, func(f *ssa.Function) bool { return fnPkgPath(f) != modPath+"/profile" })
	if d := os.Getenv("DEBUG_PATH"); d != "" {
		for _, f := range order {
			if strings.Contains(fnName(f), d) {
				fmt.Println("DEBUG_PATH", callPath(parentOf, f))
			}
		}
	}
	onPath := map[*ssa.Function]bool{}
	var pathFns []*ssa.Function
	for _, f := range order {
		if f.Blocks != nil && f.Synthetic == "" {
			onPath[f] = true
			pathFns = append(pathFns, f)
		}
	}
	sortFns(pathFns)
	c.Extra["parse_path_functions"] = len(onPath)
	if len(onPath) < 80 {
		c.undecided("C02-R1", "path", "", fmt.Sprintf("only %d functions on the parse path; expected the proto decoder and all legacy parsers", len(onPath)))
	}
	for _, want := range []string{"decodeMessage", "decodeVarint", "parseCPU", "parseHeap", "parseGoCount", "parseThread", "parseContention", "parseJavaProfile", "(*Profile).postDecode", "(*Profile).CheckValid"} {
		if f := p.Func("profile", want); f == nil || !onPath[f] {
			c.undecided("C02-R1", "path:"+want, "", want+" is not on the computed parse path")
		}
	}

	// ---- R1 validity gate
	cv := p.Func("profile", "(*Profile).CheckValid")
	var cvCall *ssa.Call
	for _, b := range root.Blocks {
		for _, ins := range b.Instrs {
			if call, ok := ins.(*ssa.Call); ok && call.Call.StaticCallee() == cv {
				cvCall = call
			}
		}
	}
	if cvCall == nil {
		c.bad("C02-R1", "gate:ParseData", p.relFile(root.Pos()), "ParseData does not call CheckValid: an invalid profile can be returned")
	} else {
		ok := true
		n := 0
		for _, b := range root.Blocks {
			ret, isRet := b.Instrs[len(b.Instrs)-1].(*ssa.Return)
			if !isRet {
				continue
			}
			if k, isConst := ret.Results[0].(*ssa.Const); isConst && k.IsNil() {
				continue // error return
			}
			n++
			// the returned profile is the one that was validated, and validation succeeded on this path
			if !instrDominates(cvCall, ret) || !sameProfileValue(ret.Results[0], cvCall.Call.Args[0]) {
				ok = false
			}
			reach := reachUnder(root, func(cond ssa.Value) int {
				// assume CheckValid returned a non-nil error
				if cmp, isCmp := cond.(*ssa.BinOp); isCmp && (cmp.Op == token.NEQ || cmp.Op == token.EQL) {
					if cmp.X == ssa.Value(cvCall) || cmp.Y == ssa.Value(cvCall) {
						if cmp.Op == token.NEQ {
							return 1
						}
						return -1
					}
				}
				return 0
			})
			if reach[b] {
				ok = false
			}
		}
		if ok && n > 0 {
			c.ok("C02-R1", "gate:ParseData", p.relFile(cvCall.Pos()), "every profile returned by ParseData has passed CheckValid", "CheckValid on the returned value dominates the successful return, which is unreachable when it reports an error")
		} else {
			c.bad("C02-R1", "gate:ParseData", p.relFile(cvCall.Pos()), "ParseData can return a profile that did not pass CheckValid")
		}
	}
	if pf := p.Func("profile", "Parse"); pf != nil {
		ok := true
		for _, b := range pf.Blocks {
			if ret, isRet := b.Instrs[len(b.Instrs)-1].(*ssa.Return); isRet {
				if k, isConst := ret.Results[0].(*ssa.Const); isConst && k.IsNil() {
					continue
				}
				if ex, isEx := ret.Results[0].(*ssa.Extract); !isEx || ex.Tuple.(*ssa.Call).Call.StaticCallee() != root {
					ok = false
				}
			}
		}
		if ok {
			c.ok("C02-R1", "gate:Parse", p.relFile(pf.Pos()), "Parse returns only what ParseData returns", "its non-nil result is ParseData's")
		} else {
			c.bad("C02-R1", "gate:Parse", p.relFile(pf.Pos()), "Parse returns a profile that did not come from ParseData")
		}
	}

	// ---- R2 no explicit panic, type assertions
	tables := decoderTables(p, p.SSAPkg("profile"))
	slotOwner := map[*ssa.Function]string{} // decoder closure → message type of its table
	for _, t := range p.moduleNamedTypes() {
		if t.Obj().Pkg().Path() != modPath+"/profile" {
			continue
		}
		dec := methodOf(p, t, "decoder")
		if dec == nil {
			continue
		}
		for _, b := range dec.Blocks {
			for _, ins := range b.Instrs {
				if ret, ok := ins.(*ssa.Return); ok && len(ret.Results) == 1 {
					if ld, ok := ret.Results[0].(*ssa.UnOp); ok {
						if g, ok := ld.X.(*ssa.Global); ok {
							for _, fn := range tables[g] {
								slotOwner[fn] = t.Obj().Name()
							}
						}
					}
				}
			}
		}
	}
	nAssert, nPanic := 0, 0
	for _, f := range pathFns {
		for _, b := range f.Blocks {
			for _, ins := range b.Instrs {
				switch x := ins.(type) {
				case *ssa.Panic:
					nPanic++
					c.bad("C02-R2", "panic:"+fnName(f), p.relFile(x.Pos()), "explicit panic on the parse path in "+fnName(f))
				case *ssa.TypeAssert:
					if x.CommaOk {
						continue
					}
					nAssert++
					key := fmt.Sprintf("assert:%s:%s", fnName(f), typeShort(x.AssertedType))
					owner, isSlot := slotOwner[f]
					n := namedOf(x.AssertedType)
					switch {
					case isSlot && n != nil && n.Obj().Name() == owner:
						c.ok("C02-R2", key, p.relFile(x.Pos()), "decoder slot of "+owner+" asserts its message", "the slot is stored in "+owner+"'s decoder table, and decodeMessage calls it with that message")
					case isSlot:
						c.bad("C02-R2", key, p.relFile(x.Pos()), fmt.Sprintf("decoder slot in %s's table asserts the message as %s: it panics on every input carrying the field", owner, typeShort(x.AssertedType)))
					default:
						c.bad("C02-R2", key, p.relFile(x.Pos()), "non-comma-ok type assertion on the parse path in "+fnName(f))
					}
				}
			}
		}
	}
	if nPanic == 0 {
		c.ok("C02-R2", "panic:none", "", "no explicit panic on the parse path", fmt.Sprintf("%d functions scanned", len(pathFns)))
	}
	if nAssert < 30 {
		c.undecided("C02-R2", "assert:count", "", fmt.Sprintf("only %d decoder-slot assertions found", nAssert))
	}

	// ---- R3 bounds: the parse path, and the write path a parsed profile must survive
	onWrite := map[*ssa.Function]bool{}
	var wroots []*ssa.Function
	wroots = append(wroots, c.serializers("C02-R3")...)
	for _, n := range []string{"(*Profile).Copy", "(*Profile).Write", "(*Profile).WriteUncompressed"} {
		if f := c.anchorFn("C02-R3", "profile", n); f != nil {
			wroots = append(wroots, f)
		}
	}
	_, worder := p.MG().Reach(wroots, func(f *ssa.Function) bool { return fnPkgPath(f) != modPath+"/profile" })
	for _, f := range worder {
		// the byte-buffer arithmetic of the encode* helpers is codec arithmetic (not decided,
		// see C01); checked here are the functions that index the profile's own data
		if f.Blocks != nil && f.Synthetic == "" && !onPath[f] && (f.Name() == "preEncode" || f.Name() == "encode") {
			onWrite[f] = true
		}
	}
	c.Extra["write_path_functions"] = len(onWrite)
	c.guardRule("C02-R3", func(f *ssa.Function) bool { return onPath[f] || onWrite[f] }, false, c02GuardExceptions, c02ExceptionHooks)
	c.Floor("C02-R3", 150)

	// the parsed unit lists satisfy the length invariant the write path relies on
	c.unitPadding("C02-R3")

	// ---- R4 typestate of the wire buffer
	for _, f := range pathFns {
		if !strings.HasPrefix(f.Name(), "decode") || f.Parent() != nil {
			continue
		}
		var checks []*ssa.Instruction
		_ = checks
		for _, b := range f.Blocks {
			for _, ins := range b.Instrs {
				ld, ok := ins.(*ssa.UnOp)
				if !ok || ld.Op != token.MUL {
					continue
				}
				fa, ok := ld.X.(*ssa.FieldAddr)
				if !ok {
					continue
				}
				T, F := fieldOf(fa.X.Type(), fa.Field)
				if T != "profile.buffer" || (F != "u64" && F != "data") {
					continue
				}
				if _, isParam := fa.X.(*ssa.Parameter); !isParam {
					continue
				}
				want := int64(0)
				if F == "data" {
					want = 2
				}
				key := fmt.Sprintf("wiretype:%s:%s", fnName(f), F)
				if typeChecked(f, ld, fa.X, want) {
					c.ok("C02-R4", key, p.relFile(ld.Pos()), fmt.Sprintf("%s reads b.%s", fnName(f), F), fmt.Sprintf("after a dominating check that b.typ == %d", want))
				} else {
					c.bad("C02-R4", key, p.relFile(ld.Pos()), fmt.Sprintf("%s reads b.%s without first checking that the wire type is %d: a field of another type is misread", fnName(f), F, want))
				}
			}
		}
	}
	// decodeMessage skips unknown fields
	if dm := p.Func("profile", "decodeMessage"); dm != nil {
		var dyn *ssa.Call
		for _, b := range dm.Blocks {
			for _, ins := range b.Instrs {
				if call, ok := ins.(*ssa.Call); ok && call.Call.StaticCallee() == nil && !call.Call.IsInvoke() {
					dyn = call
				}
			}
		}
		if dyn == nil {
			c.undecided("C02-R4", "slot-guard", p.relFile(dm.Pos()), "decodeMessage has no dynamic decoder call")
		} else {
			// the called value is dec[b.field]: the IndexAddr must be discharged by the guard engine (R3) and the nil test must dominate
			nilChecked := false
			for d := dyn.Block(); d != nil; d = d.Idom() {
				id := d.Idom()
				if id == nil {
					break
				}
				if iff, ok := id.Instrs[len(id.Instrs)-1].(*ssa.If); ok {
					if cmp, ok := iff.Cond.(*ssa.BinOp); ok && (cmp.Op == token.EQL || cmp.Op == token.NEQ) {
						if k, ok := cmp.Y.(*ssa.Const); ok && k.IsNil() {
							if _, isSig := cmp.X.Type().Underlying().(*types.Signature); isSig {
								nilChecked = true
							}
						}
					}
				}
			}
			if nilChecked {
				c.ok("C02-R4", "slot-guard", p.relFile(dyn.Pos()), "decodeMessage calls a decoder slot only when it is non-nil", "a dominating nil test on the slot value (its index is covered by R3)")
			} else {
				c.bad("C02-R4", "slot-guard", p.relFile(dyn.Pos()), "decodeMessage calls dec[b.field] without a nil test: an unknown field number panics")
			}
		}
	}
	c.Floor("C02-R4", 8)

	// ---- R6 allocation bound
	lenProg = p
	nAlloc := 0
	for _, f := range pathFns {
		for _, b := range f.Blocks {
			for _, ins := range b.Instrs {
				mk, ok := ins.(*ssa.MakeSlice)
				if !ok {
					continue
				}
				if derivesOnlyFromLen(mk.Len, map[ssa.Value]bool{}) && derivesOnlyFromLen(mk.Cap, map[ssa.Value]bool{}) {
					continue
				}
				nAlloc++
				key := "alloc:" + fnName(f) + ":" + describeValue(mk.Len)
				if boundedByInput(f, mk) {
					c.ok("C02-R6", key, p.relFile(mk.Pos()), "allocation sized by a decoded number in "+fnName(f), "dominated by a comparison of that number with the remaining input length")
				} else {
					c.bad("C02-R6", key, p.relFile(mk.Pos()), "make with a length taken from the input in "+fnName(f)+" is not bounded by the remaining input: a few bytes can request gigabytes")
				}
			}
		}
	}
	if nAlloc == 0 {
		c.undecided("C02-R6", "alloc:none", "", "no input-sized allocation found on the parse path (parseCPUSamples expected)")
	}

	// ---- R7 regexp capture arity: covered by R3 through the submatch-length facts; count them
	g := newGuardEngine(p)
	nre := 0
	for _, f := range pathFns {
		for _, b := range f.Blocks {
			for _, ins := range b.Instrs {
				if call, ok := ins.(*ssa.Call); ok && g.submatchLen(call) > 0 {
					nre++
				}
			}
		}
	}
	c.Extra["submatch_sites_with_known_arity"] = nre

	// ---- R8 integer division
	for _, f := range pathFns {
		for _, b := range f.Blocks {
			for _, ins := range b.Instrs {
				bo, ok := ins.(*ssa.BinOp)
				if !ok || (bo.Op != token.QUO && bo.Op != token.REM) {
					continue
				}
				if bt, ok := bo.X.Type().Underlying().(*types.Basic); !ok || bt.Info()&types.IsInteger == 0 {
					continue
				}
				if _, isConst := bo.Y.(*ssa.Const); isConst {
					continue
				}
				key := "div:" + fnName(f) + ":" + describeValue(bo.Y)
				if nonZeroGuard(g, f, bo) {
					c.ok("C02-R8", key, p.relFile(bo.Pos()), "integer division in "+fnName(f), "the divisor is compared with 0 on a dominating branch")
				} else {
					c.bad("C02-R8", key, p.relFile(bo.Pos()), "integer division by a value derived from the input in "+fnName(f)+" without a zero check")
				}
			}
		}
	}
	c.validityGateContent()
	c.nilElementScans()
	c.loopProgress("C02-R10", pathFns)
}

// validityGateContent (R9): the gate every parse passes through treats the three entity
// tables alike.  For each id table CheckValid builds (mappings, functions, locations), the
// insertion of an element is preceded by a nil test of the element, a zero test of its id
// and a uniqueness test (the id is looked up in the table first, or the table's size is
// compared with the list's afterwards).  A check present for two kinds and missing for the
// third lets a document through in which "the location with id n" is ambiguous.
func (c *Check) validityGateContent() {
	p := c.P
	cv := c.anchorFn("C02-R9", "profile", "(*Profile).CheckValid")
	if cv == nil {
		return
	}
	n := 0
	// examine: the tests that precede one insertion (at instruction at, in block b of fn) of
	// element elem into the table mk
	examine := func(fn *ssa.Function, b *ssa.BasicBlock, at ssa.Instruction, mk ssa.Value, elem ssa.Value, uniqueInHelper bool) {
		kind := typeShort(elem.Type())
		n++
		has := map[string]bool{}
		if uniqueInHelper {
			has["unique id"] = true
		}
		for _, b2 := range fn.Blocks {
			for _, i2 := range b2.Instrs {
				cmp, ok := i2.(*ssa.BinOp)
				if !ok || (cmp.Op != token.EQL && cmp.Op != token.NEQ) {
					continue
				}
				dom := b2 == b || b2.Dominates(b)
				for _, pair := range [][2]ssa.Value{{cmp.X, cmp.Y}, {cmp.Y, cmp.X}} {
					x, y := pair[0], pair[1]
					// element == nil
					if dom && x == elem && isNilConst(y) {
						has["nil element"] = true
					}
					// element.ID == 0
					if ld, ok := x.(*ssa.UnOp); dom && ok && ld.Op == token.MUL {
						if fa, ok := ld.X.(*ssa.FieldAddr); ok && fa.X == elem {
							if _, F := fieldOf(fa.X.Type(), fa.Field); F == "ID" {
								if k, ok := constInt(y); ok && k == 0 {
									has["zero id"] = true
								}
							}
						}
					}
					// table[id] != nil before the insertion
					if lk, ok := x.(*ssa.Lookup); dom && ok && lk.X == mk && isNilConst(y) {
						has["unique id"] = true
					}
					// len(table) != len(list) after the loop
					if lx := lenArg(x); lx == mk && lenArg(y) != nil {
						has["unique id"] = true
					}
				}
			}
		}
		// `if _, dup := table[id]; dup` form: a comma-ok lookup whose flag decides a branch
		for _, b2 := range fn.Blocks {
			if !(b2 == b || b2.Dominates(b)) {
				continue
			}
			for _, i2 := range b2.Instrs {
				lk, ok := i2.(*ssa.Lookup)
				if !ok || !lk.CommaOk || lk.X != mk || lk.Referrers() == nil {
					continue
				}
				for _, r := range *lk.Referrers() {
					if ex, ok := r.(*ssa.Extract); ok && ex.Index == 1 && ex.Referrers() != nil {
						for _, r2 := range *ex.Referrers() {
							if _, isIf := r2.(*ssa.If); isIf {
								has["unique id"] = true
							}
						}
					}
				}
			}
		}
		for _, what := range []string{"nil element", "zero id", "unique id"} {
			key := "gate:" + kind + ":" + what
			if has[what] {
				c.ok("C02-R9", key, p.relFile(at.Pos()), "CheckValid tests "+what+" for "+kind, "a comparison on the path to the table insertion (or a size comparison of table and list)")
			} else {
				c.bad("C02-R9", key, p.relFile(at.Pos()), "CheckValid inserts "+kind+" into its id table without a "+what+" test although the other entity kinds have one: a document with such a "+kind+" is returned as a valid profile (with duplicate ids the last one silently wins and samples refer to an ambiguous entity)")
			}
		}
	}
	idOwner := func(key ssa.Value) ssa.Value {
		if ld, ok := key.(*ssa.UnOp); ok && ld.Op == token.MUL {
			if fa, ok := ld.X.(*ssa.FieldAddr); ok {
				if _, F := fieldOf(fa.X.Type(), fa.Field); F == "ID" {
					return fa.X
				}
			}
		}
		return nil
	}
	// the tables may be filled in CheckValid itself or in helpers it calls (one per table)
	for _, b := range helperBlocks(cv, 2) {
		fn := b.Parent()
		for _, ins := range b.Instrs {
			switch x := ins.(type) {
			case *ssa.MapUpdate:
				mk, ok := x.Map.(*ssa.MakeMap)
				if !ok {
					continue
				}
				// the entity is the object whose ID is the key (the table may be a map to the
				// entity or a set of ids)
				if elem := idOwner(x.Key); elem != nil {
					examine(fn, b, x, mk, elem, false)
				}
			case *ssa.Call:
				// insertion through a small method of the table type (possibly generic):
				// add(id, entry) that looks the id up before it stores
				h := x.Call.StaticCallee()
				if h == nil || len(h.Blocks) == 0 || len(h.Params) != len(x.Call.Args) {
					continue
				}
				var upd *ssa.MapUpdate
				for _, hb := range h.Blocks {
					for _, hi := range hb.Instrs {
						if mu, ok := hi.(*ssa.MapUpdate); ok {
							if _, isPar := mu.Map.(*ssa.Parameter); isPar {
								if _, keyPar := mu.Key.(*ssa.Parameter); keyPar {
									upd = mu
								}
							}
						}
					}
				}
				if upd == nil {
					continue
				}
				var tbl, elem ssa.Value
				for i, pr := range h.Params {
					if ssa.Value(pr) == upd.Map {
						tbl = x.Call.Args[i]
					}
					if ssa.Value(pr) == upd.Key {
						elem = idOwner(x.Call.Args[i])
					}
				}
				if ct, ok := tbl.(*ssa.ChangeType); ok {
					tbl = ct.X
				}
				if _, isMk := tbl.(*ssa.MakeMap); !isMk || elem == nil {
					continue
				}
				// the helper stores only after a lookup of the same key in the same table
				unique := false
				for _, hb := range h.Blocks {
					if !(hb == upd.Block() || hb.Dominates(upd.Block())) {
						continue
					}
					for _, hi := range hb.Instrs {
						if lk, ok := hi.(*ssa.Lookup); ok && lk.X == upd.Map && lk.Index == upd.Key {
							unique = true
						}
					}
				}
				examine(fn, b, x, tbl, elem, unique)
			}
		}
	}
	if n != 3 {
		c.undecided("C02-R9", "gate:tables", p.relFile(cv.Pos()), fmt.Sprintf("expected three id tables in CheckValid, found %d", n))
	}
}

func sameProfileValue(a, b ssa.Value) bool {
	if a == b {
		return true
	}
	// both are loads of the same local cell
	la, ok1 := a.(*ssa.UnOp)
	lb, ok2 := b.(*ssa.UnOp)
	if ok1 && ok2 {
		return la.X == lb.X
	}
	// phi of the same sources
	return false
}

// typeChecked: a check that b.typ == want dominates ins (checkType(b, want) with its error
// returned, or an explicit comparison).
func typeChecked(f *ssa.Function, ins ssa.Instruction, buf ssa.Value, want int64) bool {
	for _, b := range f.Blocks {
		for _, i2 := range b.Instrs {
			if call, ok := i2.(*ssa.Call); ok && call.Call.StaticCallee() != nil && call.Call.StaticCallee().Name() == "checkType" {
				if k, ok := constInt(call.Call.Args[1]); ok && k == want && call.Call.Args[0] == buf && instrDominates(call, ins) {
					return true
				}
			}
		}
	}
	// explicit: on the branch where b.typ == want
	for d := ins.Block(); d != nil; d = d.Idom() {
		id := d.Idom()
		if id == nil {
			break
		}
		iff, ok := id.Instrs[len(id.Instrs)-1].(*ssa.If)
		if !ok {
			continue
		}
		cmp, ok := iff.Cond.(*ssa.BinOp)
		if !ok || !isFieldLoad(cmp.X, "profile.buffer", "typ") {
			continue
		}
		k, ok := constInt(cmp.Y)
		if !ok || k != want {
			continue
		}
		if cmp.Op == token.EQL && id.Succs[0] == d && len(d.Preds) == 1 {
			return true
		}
		if cmp.Op == token.NEQ && id.Succs[1] == d && len(d.Preds) == 1 {
			return true
		}
	}
	return false
}

// derivesOnlyFromLen: v is nil, a constant, a len()/cap() or arithmetic over those.
func derivesOnlyFromLen(v ssa.Value, seen map[ssa.Value]bool) bool {
	if v == nil || seen[v] {
		return true
	}
	seen[v] = true
	switch x := v.(type) {
	case *ssa.Const:
		return true
	case *ssa.Call:
		if b, ok := x.Call.Value.(*ssa.Builtin); ok && (b.Name() == "len" || b.Name() == "cap") {
			return true
		}
		return false
	case *ssa.BinOp:
		return derivesOnlyFromLen(x.X, seen) && derivesOnlyFromLen(x.Y, seen)
	case *ssa.Convert:
		return derivesOnlyFromLen(x.X, seen)
	case *ssa.Phi:
		for _, e := range x.Edges {
			if !derivesOnlyFromLen(e, seen) {
				return false
			}
		}
		return true
	case *ssa.Parameter:
		// every static caller passes a len-derived value
		f := x.Parent()
		idx := -1
		for i, q := range f.Params {
			if q == x {
				idx = i
			}
		}
		n := 0
		if lenProg == nil || idx < 0 {
			return false
		}
		for h := range lenProg.AllFns {
			if !fnInModule(h) || h.Blocks == nil {
				continue
			}
			for _, b := range h.Blocks {
				for _, ins := range b.Instrs {
					if call, ok := ins.(ssa.CallInstruction); ok && call.Common().StaticCallee() == f {
						n++
						if !derivesOnlyFromLen(call.Common().Args[idx], seen) {
							return false
						}
					}
				}
			}
		}
		return n > 0
	}
	return false
}

var lenProg *Program

// boundedByInput: the MakeSlice length n is compared against an expression of len(input)
// on a dominating branch whose "too large" side leaves the function.
func boundedByInput(f *ssa.Function, mk *ssa.MakeSlice) bool {
	return valueBoundedByInput(f, mk.Len, mk, 0)
}

// valueBoundedByInput: a comparison of n with an expression over the remaining input length
// dominates instruction at in f; when n is a parameter of f, the same holds for the argument
// at every call of f (f must only be called directly).
func valueBoundedByInput(f *ssa.Function, n ssa.Value, at ssa.Instruction, depth int) bool {
	for {
		if cv, ok := n.(*ssa.Convert); ok {
			n = cv.X
			continue
		}
		break
	}
	if par, ok := n.(*ssa.Parameter); ok && depth < 2 {
		idx := -1
		for i, q := range f.Params {
			if q == par {
				idx = i
			}
		}
		calls, asValue := directCallSites(lenProg, f)
		if idx >= 0 && len(calls) > 0 && !asValue {
			all := true
			for _, call := range calls {
				if idx >= len(call.Common().Args) || !valueBoundedByInput(call.Parent(), call.Common().Args[idx], call, depth+1) {
					all = false
				}
			}
			if all {
				return true
			}
		}
	}
	for _, b := range f.Blocks {
		for _, ins := range b.Instrs {
			cmp, ok := ins.(*ssa.BinOp)
			if !ok || (cmp.Op != token.GTR && cmp.Op != token.LSS && cmp.Op != token.GEQ && cmp.Op != token.LEQ) {
				continue
			}
			var other ssa.Value
			if sameModConvert(cmp.X, n) {
				other = cmp.Y
			} else if sameModConvert(cmp.Y, n) {
				other = cmp.X
			} else {
				continue
			}
			if !mentionsLen(other, map[ssa.Value]bool{}) {
				continue
			}
			if instrDominates(cmp, at) {
				return true
			}
		}
	}
	return false
}

func mentionsLen(v ssa.Value, seen map[ssa.Value]bool) bool {
	if v == nil || seen[v] {
		return false
	}
	seen[v] = true
	switch x := v.(type) {
	case *ssa.Call:
		if b, ok := x.Call.Value.(*ssa.Builtin); ok && b.Name() == "len" {
			return true
		}
	case *ssa.BinOp:
		return mentionsLen(x.X, seen) || mentionsLen(x.Y, seen)
	case *ssa.Convert:
		return mentionsLen(x.X, seen)
	}
	return false
}

func nonZeroGuard(g *guardEngine, f *ssa.Function, div *ssa.BinOp) bool {
	if nonZeroGuardAt(g, f, div.Y, div) {
		return true
	}
	// the divisor is a parameter of a helper: tested by every caller before the call
	if par, ok := div.Y.(*ssa.Parameter); ok && par.Parent() == f {
		idx := -1
		for i, q := range f.Params {
			if q == par {
				idx = i
			}
		}
		calls, asValue := directCallSites(g.p, f)
		if idx < 0 || asValue || len(calls) == 0 {
			return false
		}
		for _, cs := range calls {
			ci, ok := cs.(ssa.Instruction)
			if !ok || idx >= len(cs.Common().Args) || !nonZeroGuardAt(g, ci.Parent(), cs.Common().Args[idx], ci) {
				return false
			}
		}
		return true
	}
	return false
}

// nonZeroGuardAt: a comparison of d dominates the instruction at in f.
func nonZeroGuardAt(g *guardEngine, f *ssa.Function, d ssa.Value, div ssa.Instruction) bool {
	for _, b := range f.Blocks {
		for _, ins := range b.Instrs {
			cmp, ok := ins.(*ssa.BinOp)
			if !ok {
				continue
			}
			switch cmp.Op {
			case token.EQL, token.NEQ, token.GTR, token.LSS, token.LEQ, token.GEQ:
			default:
				continue
			}
			if !(sameModConvert(cmp.X, d) || sameModConvert(cmp.Y, d) || g.same(cmp.X, d) || g.same(cmp.Y, d)) {
				continue
			}
			if instrDominates(cmp, div) {
				return true
			}
		}
	}
	return false
}
