package main

import (
	"fmt"
	"go/token"
	"go/types"
	"strings"

	"golang.org/x/tools/go/ssa"
)

// loopHeaderAround: the header of the innermost natural loop that contains b.
func loopHeaderAround(b *ssa.BasicBlock) *ssa.BasicBlock {
	for d := b; d != nil; d = d.Idom() {
		for _, pred := range d.Preds {
			if d.Dominates(pred) && naturalLoop(d)[b] {
				return d
			}
		}
	}
	return nil
}

// iterationSkips: can one iteration of the loop headed by hdr (body entry back to the
// header) avoid the block must, when branches decided by assume are followed only along the
// decided edge?  Leaving the loop is not a skipped iteration.
func iterationSkips(hdr, must *ssa.BasicBlock, assume func(ssa.Value) int) bool {
	loop := naturalLoop(hdr)
	skipped := false
	seen := map[*ssa.BasicBlock]bool{}
	var walk func(b *ssa.BasicBlock)
	walk = func(b *ssa.BasicBlock) {
		if b == must || seen[b] || skipped {
			return
		}
		if b == hdr {
			skipped = true
			return
		}
		if !loop[b] {
			return
		}
		seen[b] = true
		succs := b.Succs
		if iff, ok := b.Instrs[len(b.Instrs)-1].(*ssa.If); ok {
			switch assume(iff.Cond) {
			case 1:
				succs = b.Succs[:1]
			case -1:
				succs = b.Succs[1:]
			}
		}
		for _, sc := range succs {
			walk(sc)
		}
	}
	for _, sc := range hdr.Succs {
		if loop[sc] && sc != hdr {
			walk(sc)
		}
	}
	return skipped
}

// cutoffIsStrict (R8): the entries removed by the node cutoff are those whose |cum| is
// below it; an entry whose |cum| equals the cutoff stays (and a cutoff of 0 keeps
// everything, which SelectTopNodes relies on).  In every function of the graph package that
// selects nodes by comparing a value derived from Node.Cum with an integer parameter, the
// node is kept on every path of an iteration under the assumption "the two are equal".
func (c *Check) cutoffIsStrict() {
	p := c.P
	n := 0
	fromCum := func(v ssa.Value, node ssa.Value) bool {
		for i := 0; i < 4; i++ {
			switch x := v.(type) {
			case *ssa.Call:
				if len(x.Call.Args) == 1 && x.Call.StaticCallee() != nil {
					v = x.Call.Args[0]
					continue
				}
				return false
			case *ssa.UnOp:
				if x.Op == token.SUB {
					v = x.X
					continue
				}
				if x.Op != token.MUL {
					return false
				}
				fa, ok := x.X.(*ssa.FieldAddr)
				if !ok {
					return false
				}
				T, F := fieldOf(fa.X.Type(), fa.Field)
				return T == "graph.Node" && F == "Cum" && (node == nil || fa.X == node)
			case *ssa.Phi:
				// abs written inline: a phi of the value and its negation
				if len(x.Edges) == 0 {
					return false
				}
				v = x.Edges[0]
				continue
			}
			return false
		}
		return false
	}
	isCutoffParam := func(v ssa.Value) bool {
		switch v.(type) {
		case *ssa.Parameter, *ssa.FreeVar:
		case *ssa.UnOp:
			// a captured cutoff read through its cell
			if _, isFV := v.(*ssa.UnOp).X.(*ssa.FreeVar); !isFV {
				return false
			}
		default:
			return false
		}
		bt, ok := v.Type().Underlying().(*types.Basic)
		return ok && bt.Info()&types.IsInteger != 0
	}
	// the comparisons of f between a node's cum and a cutoff parameter
	cutoffCmps := func(f *ssa.Function, node ssa.Value) []*ssa.BinOp {
		var cmps []*ssa.BinOp
		for _, b := range f.Blocks {
			for _, ins := range b.Instrs {
				if cmp, ok := ins.(*ssa.BinOp); ok {
					if (fromCum(cmp.X, node) && isCutoffParam(cmp.Y)) || (fromCum(cmp.Y, node) && isCutoffParam(cmp.X)) {
						cmps = append(cmps, cmp)
					}
				}
			}
		}
		return cmps
	}
	// the outcome of such a comparison when both sides are equal
	atEquality := func(cmps []*ssa.BinOp) func(ssa.Value) int {
		return func(cond ssa.Value) int {
			for _, cmp := range cmps {
				if cond == ssa.Value(cmp) {
					switch cmp.Op {
					case token.LSS, token.GTR, token.NEQ:
						return -1
					case token.LEQ, token.GEQ, token.EQL:
						return 1
					}
				}
			}
			return 0
		}
	}
	forAllPkgFuncs(p, "internal/graph", func(f *ssa.Function) {
		// statements that keep a node: appended to a list, or put into a set
		type keep struct {
			ins  ssa.Instruction
			node ssa.Value
		}
		var keeps []keep
		for _, h := range harvestSites(f) {
			if structName(h.val.Type()) == "graph.Node" {
				keeps = append(keeps, keep{h.ins, h.val})
			}
		}
		for _, b := range f.Blocks {
			for _, ins := range b.Instrs {
				if mu, ok := ins.(*ssa.MapUpdate); ok && structName(mu.Key.Type()) == "graph.Node" {
					keeps = append(keeps, keep{mu, mu.Key})
				}
			}
		}
		if len(keeps) != 1 {
			return
		}
		node := keeps[0].node
		cmps := cutoffCmps(f, node)
		// a predicate helper that receives the node and the cutoff
		helperVerdict := map[*ssa.Call]int{}
		var firstPos token.Pos
		for _, b := range f.Blocks {
			for _, ins := range b.Instrs {
				call, ok := ins.(*ssa.Call)
				if !ok {
					continue
				}
				h := helperCallee(f, call)
				if h == nil || h.Signature.Results().Len() != 1 {
					continue
				}
				if bt, ok := h.Signature.Results().At(0).Type().Underlying().(*types.Basic); !ok || bt.Kind() != types.Bool {
					continue
				}
				passesNode := false
				for _, a := range call.Call.Args {
					if a == node {
						passesNode = true
					}
				}
				hc := cutoffCmps(h, nil)
				if !passesNode || len(hc) == 0 {
					continue
				}
				helperVerdict[call] = boolResultUnder(h, atEquality(hc))
				firstPos = hc[0].Pos()
			}
		}
		if len(cmps) == 0 && len(helperVerdict) == 0 {
			return
		}
		if len(cmps) > 0 {
			firstPos = cmps[0].Pos()
		}
		hdr := loopHeaderAround(keeps[0].ins.Block())
		if hdr == nil {
			return
		}
		n++
		key := "cutoff-strict:" + fnName(f)
		base := atEquality(cmps)
		assume := func(cond ssa.Value) int {
			if d := base(cond); d != 0 {
				return d
			}
			if call, ok := cond.(*ssa.Call); ok {
				return helperVerdict[call]
			}
			return 0
		}
		if iterationSkips(hdr, keeps[0].ins.Block(), assume) {
			c.bad("C05-R8", key, p.relFile(firstPos), fnName(f)+" drops a node whose |cum| equals the cutoff: the entries removed are no longer exactly those below the cutoff, and with a cutoff of 0 (top-N selection) every entry whose cum cancels to zero is lost although its flat is shown in the untrimmed report")
		} else {
			c.ok("C05-R8", key, p.relFile(firstPos), fnName(f)+" keeps a node whose |cum| equals the cutoff", "with Cum compared equal to the cutoff parameter no path through an iteration avoids the statement that keeps the node")
		}
	})
	// selection written as a library filter: slices.DeleteFunc(nodes, pred) removes what pred
	// accepts, so pred must reject a node whose |cum| equals the cutoff
	forAllPkgFuncs(p, "internal/graph", func(f *ssa.Function) {
		for _, b := range f.Blocks {
			for _, ins := range b.Instrs {
				call, ok := ins.(*ssa.Call)
				if !ok || call.Call.StaticCallee() == nil || fnPkgPath(call.Call.StaticCallee()) != "slices" || len(call.Call.Args) != 2 {
					continue
				}
				name := call.Call.StaticCallee().Name()
				if !strings.HasPrefix(name, "DeleteFunc") {
					continue
				}
				sl, ok := call.Call.Args[0].Type().Underlying().(*types.Slice)
				if !ok || structName(sl.Elem()) != "graph.Node" {
					continue
				}
				preds, unknown := p.MG().funcValues(call.Call.Args[1], map[ssa.Value]bool{})
				for _, pred := range preds {
					cmps := cutoffCmps(pred, nil)
					if len(cmps) == 0 {
						continue
					}
					n++
					key := "cutoff-strict:" + fnName(f)
					switch {
					case unknown:
						c.undecided("C05-R8", key, p.relFile(call.Pos()), "the predicate handed to slices.DeleteFunc could not be resolved")
					case boolResultUnder(pred, atEquality(cmps)) == -1:
						c.ok("C05-R8", key, p.relFile(cmps[0].Pos()), fnName(f)+" keeps a node whose |cum| equals the cutoff", "the predicate handed to slices.DeleteFunc is false when Cum compares equal to the cutoff")
					default:
						c.bad("C05-R8", key, p.relFile(cmps[0].Pos()), fnName(f)+" drops a node whose |cum| equals the cutoff: the entries removed are no longer exactly those below the cutoff, and with a cutoff of 0 (top-N selection) every entry whose cum cancels to zero is lost although its flat is shown in the untrimmed report")
					}
				}
			}
		}
	})
	if n == 0 {
		c.undecided("C05-R8", "cutoff-strict", "", "no function of internal/graph selects nodes by comparing Node.Cum with a cutoff parameter")
	}
}

// detachIsUnconditional (R9): no edge refers to a removed entry.  When TrimTree removes a
// node it walks the node's out-edges and deletes the node from each child's In map (the child
// is re-attached to the removed node's parent, or becomes a root).  Each such delete is
// executed on every iteration of the loop over the out-edges it sits in: a child that is
// skipped keeps an in-edge from a node that is no longer in the graph.
func (c *Check) detachIsUnconditional() {
	p := c.P
	tt := c.anchorFn("C05-R9", "internal/graph", "(*Graph).TrimTree")
	if tt == nil {
		return
	}
	n := 0
	for _, g := range withHelpers(tt, 2) {
		for _, b := range g.Blocks {
			for _, ins := range b.Instrs {
				call, ok := ins.(*ssa.Call)
				if !ok {
					continue
				}
				bi, ok := call.Call.Value.(*ssa.Builtin)
				if !ok || bi.Name() != "delete" || len(call.Call.Args) != 2 {
					continue
				}
				ld, ok := call.Call.Args[0].(*ssa.UnOp)
				if !ok {
					continue
				}
				fa, ok := ld.X.(*ssa.FieldAddr)
				if !ok {
					continue
				}
				if T, F := fieldOf(fa.X.Type(), fa.Field); T != "graph.Node" || F != "In" {
					continue
				}
				hdr := loopHeaderAround(b)
				if hdr == nil {
					continue
				}
				// only loops over a map of edges (a node's Out): the header holds the Next of a map range
				overEdges := false
				for _, hi := range hdr.Instrs {
					if nx, ok := hi.(*ssa.Next); ok {
						if rg, ok := nx.Iter.(*ssa.Range); ok {
							if mt, ok := rg.X.Type().Underlying().(*types.Map); ok && structName(mt.Elem()) == "graph.Edge" {
								overEdges = true
							}
						}
					}
				}
				if !overEdges {
					continue
				}
				n++
				key := fmt.Sprintf("detach:%s#%d", fnName(g), n)
				if iterationSkips(hdr, b, func(ssa.Value) int { return 0 }) {
					c.bad("C05-R9", key, p.relFile(call.Pos()), fnName(g)+" deletes the removed node from a child's In map only on some iterations of the loop over its out-edges: a child that is skipped keeps an in-edge from a removed entry (and, when it is removed later itself, re-attaches its own children to that entry)")
				} else {
					c.ok("C05-R9", key, p.relFile(call.Pos()), "every child of a removed node is detached from it in "+fnName(g), "the delete on the child's In map is on every path through an iteration of the loop over the out-edges")
				}
			}
		}
	}
	if n == 0 {
		c.undecided("C05-R9", "detach", p.relFile(tt.Pos()), "no loop of TrimTree over a removed node's out-edges deletes the node from the children's In maps")
	}
}

// keptSetForwarded (R10): the kept set computed by a trimming pass is handed to the graph
// construction as it is, also when it is empty ("keep nothing" is not "no trimming").  In
// (*Report).newGraph the store of the parameter into graph.Options.KeptNodes dominates the
// call that builds the graph.
func (c *Check) keptSetForwarded() {
	p := c.P
	f := c.anchorFn("C05-R10", "internal/report", "(*Report).newGraph")
	if f == nil {
		return
	}
	key := "kept-forwarded"
	var build *ssa.Call
	var stores []*ssa.Store
	for _, g := range withHelpers(f, 1) {
		for _, b := range g.Blocks {
			for _, ins := range b.Instrs {
				switch x := ins.(type) {
				case *ssa.Call:
					if sc := x.Call.StaticCallee(); sc != nil && fnPkgPath(sc) == modPath+"/internal/graph" && g == f {
						for _, a := range x.Call.Args {
							if structName(a.Type()) == "graph.Options" {
								build = x
							}
						}
					}
				case *ssa.Store:
					if fa, ok := x.Addr.(*ssa.FieldAddr); ok && g == f {
						if T, F := fieldOf(fa.X.Type(), fa.Field); T == "graph.Options" && F == "KeptNodes" {
							stores = append(stores, x)
						}
					}
				}
			}
		}
	}
	if build != nil && len(stores) == 0 {
		// the options are put together by a helper that is handed the kept set: in the helper
		// the store of that parameter dominates every return, and newGraph passes its own
		// parameter
		for _, a := range build.Call.Args {
			oc, isCall := a.(*ssa.Call)
			if !isCall || structName(a.Type()) != "graph.Options" {
				continue
			}
			h := oc.Call.StaticCallee()
			if h == nil || !fnInModule(h) || len(h.Blocks) == 0 {
				continue
			}
			good, found := false, false
			for _, b := range h.Blocks {
				for _, ins := range b.Instrs {
					st, ok := ins.(*ssa.Store)
					if !ok {
						continue
					}
					fa, ok := st.Addr.(*ssa.FieldAddr)
					if !ok {
						continue
					}
					if T, F := fieldOf(fa.X.Type(), fa.Field); T != "graph.Options" || F != "KeptNodes" {
						continue
					}
					found = true
					par, isPar := st.Val.(*ssa.Parameter)
					if !isPar {
						continue
					}
					dom := true
					for _, rb := range h.Blocks {
						if ret, isRet := rb.Instrs[len(rb.Instrs)-1].(*ssa.Return); isRet && !instrDominates(st, ret) {
							dom = false
						}
					}
					idx := -1
					for i, q := range h.Params {
						if q == par {
							idx = i
						}
					}
					if dom && idx >= 0 && idx < len(oc.Call.Args) {
						if _, fromOwn := oc.Call.Args[idx].(*ssa.Parameter); fromOwn {
							good = true
						}
					}
				}
			}
			if found {
				if good {
					c.ok("C05-R10", key, p.relFile(oc.Pos()), "the kept set reaches the graph construction unconditionally", "the helper that builds the options stores its parameter into Options.KeptNodes before every return, and newGraph passes its own parameter")
				} else {
					c.bad("C05-R10", key, p.relFile(oc.Pos()), "(*Report).newGraph hands its kept set to the graph construction only on some paths of "+fnName(h)+": a cutoff that removes every entry yields the untrimmed graph")
				}
				return
			}
		}
	}
	if build == nil || len(stores) == 0 {
		c.undecided("C05-R10", key, p.relFile(f.Pos()), "(*Report).newGraph: the store into graph.Options.KeptNodes or the call that builds the graph was not found")
		return
	}
	fromParam := func(v ssa.Value) bool {
		for i := 0; i < 3; i++ {
			switch x := v.(type) {
			case *ssa.Parameter:
				return true
			case *ssa.ChangeType:
				v = x.X
			case *ssa.Convert:
				v = x.X
			default:
				return false
			}
		}
		return false
	}
	ok := false
	for _, st := range stores {
		if fromParam(st.Val) && instrDominates(st, build) {
			ok = true
		}
	}
	if ok {
		c.ok("C05-R10", key, p.relFile(stores[0].Pos()), "the kept set reaches the graph construction unconditionally", "the store of the parameter into Options.KeptNodes dominates the call that builds the graph")
	} else {
		c.bad("C05-R10", key, p.relFile(stores[0].Pos()), "(*Report).newGraph hands its kept set to the graph construction only on some paths (for instance only when it is not empty): a cutoff that removes every entry yields the untrimmed graph, whose header then accounts for 100% next to \"Dropped N nodes\"")
	}
}
