package main

import (
	"fmt"
	"go/token"
	"go/types"

	"golang.org/x/tools/go/ssa"
)

func init() { register("C07", true, runC07) }

// C07 is arithmetic over value vectors and is not decided.  What is visible in the shape
// of the code — and decided here — is the wiring that the linear law depends on: which
// profile is normalised against which, that the base (and only the base) is negated once
// and after normalisation, that sample types are aligned and units harmonised before the
// merge, that every per-column factor is applied to the column and profile it was computed
// for, and that scaling drops a sample only when all of its values are zero.
func runC07(c *Check) {
	c.Explanation = "Does not decide the linear law of C07 itself (sums and differences of value vectors, float conversion and rounding are runtime arithmetic). Decides the wiring clauses the law depends on, for every tuple of profiles and every option combination: in fetchProfiles the source is normalised against the base (not the reverse), only when -normalize is given and before the base is negated; the base and only the base is scaled by the constant -1, exactly once, before the two are combined in the order source, base (R1); combineProfiles aligns sample types, then harmonises units, then merges, each step on the same list and each error returned (R2); Normalize sums base and source per column, divides the base sum by the source sum of the same column under a zero guard, applies the factors to the source and never writes the base (R3); ScaleProfiles computes each factor from that profile's own unit of column i to the common unit of column i, stores it in slot i and applies the list to the same profile (R4); ScaleN keeps a sample iff any of its values is non-zero after scaling - the keep decision must look at every column (R5, a genuine defect on the pinned tree, recorded as a known finding); compatibilizeSampleTypes reorders sample types and values with the same index map (R6). Also: per-input id tables of Merge (R8), unit read before it is overwritten in ScaleProfiles (R9), every fetched source is collected (R10), every column's factor slot assigned (R11). Round-I additions: with diff_base the total and its mean divisor come from the same samples (shared with C04-R6); a flag summarising a loop is raised, never overwritten, inside it. Not decided: the numbers, rounding, CommonValueType's choice (see C15), the diff-base total (see C04)."
	c.baseWiring()
	c.normalizeUnconditional()
	c.runningMinimumAs("C07-R4")
	c.diffBaseProtocol("C07-R7")
	c.combineOrder()
	c.normalizeShape()
	c.scaleProfilesPairing()
	c.scaleNKeepsWeight()
	c.compatibilizeIndexMap()
	c.c07H()
}

// loadIndex: v = *(&arr[idx]) → (arr, idx)
func loadIndex(v ssa.Value) (ssa.Value, ssa.Value, bool) {
	ld, ok := v.(*ssa.UnOp)
	if !ok || ld.Op != token.MUL {
		return nil, nil, false
	}
	ia, ok := ld.X.(*ssa.IndexAddr)
	if !ok {
		return nil, nil, false
	}
	return ia.X, ia.Index, true
}

func stripConv(v ssa.Value) ssa.Value {
	for {
		switch x := v.(type) {
		case *ssa.Convert:
			v = x.X
		case *ssa.ChangeType:
			v = x.X
		default:
			return v
		}
	}
}

// ---- R1
// wiringFunction: the function that combines source and base - fetchProfiles itself, or a
// helper it hands both results of grabSourcesAndBases to - with the values that denote the
// source and the base there.
func (c *Check) wiringFunction(rule string) (*ssa.Function, ssa.Value, ssa.Value) {
	f := c.anchorFn(rule, "internal/driver", "fetchProfiles")
	if f == nil {
		return nil, nil, nil
	}
	var grab *ssa.Call
	hasCombine := false
	for _, b := range f.Blocks {
		for _, ins := range b.Instrs {
			if calleeNamed(ins, "grabSourcesAndBases") {
				grab, _ = ins.(*ssa.Call)
			}
			if calleeNamed(ins, "combineProfiles") {
				hasCombine = true
			}
		}
	}
	if grab == nil || grab.Referrers() == nil {
		return f, nil, nil
	}
	var src, base ssa.Value
	for _, r := range *grab.Referrers() {
		if e, ok := r.(*ssa.Extract); ok {
			switch e.Index {
			case 0:
				src = e
			case 1:
				base = e
			}
		}
	}
	if hasCombine || src == nil || base == nil {
		return f, src, base
	}
	for _, b := range f.Blocks {
		for _, ins := range b.Instrs {
			h := helperCallee(f, ins)
			if h == nil {
				continue
			}
			call := ins.(ssa.CallInstruction).Common()
			si, bi := -1, -1
			for i, a := range call.Args {
				if a == src {
					si = i
				}
				if a == base {
					bi = i
				}
			}
			if si < 0 || bi < 0 || si >= len(h.Params) || bi >= len(h.Params) {
				continue
			}
			for _, hb := range h.Blocks {
				for _, hi := range hb.Instrs {
					if calleeNamed(hi, "combineProfiles") {
						return h, h.Params[si], h.Params[bi]
					}
				}
			}
		}
	}
	return f, src, base
}

func (c *Check) baseWiring() {
	p := c.P
	f, wsrc, wbase := c.wiringFunction("C07-R1")
	if f == nil {
		return
	}
	pos := p.relFile(f.Pos())
	var grab *ssa.Call
	var scale, norm, combine []*ssa.Call
	for _, b := range f.Blocks {
		for _, ins := range b.Instrs {
			call, ok := ins.(*ssa.Call)
			if !ok || call.Call.StaticCallee() == nil {
				continue
			}
			switch call.Call.StaticCallee().Name() {
			case "grabSourcesAndBases":
				grab = call
			case "Scale":
				scale = append(scale, call)
			case "Normalize":
				norm = append(norm, call)
			case "combineProfiles":
				combine = append(combine, call)
			}
		}
	}
	_ = grab
	if len(combine) != 1 {
		c.undecided("C07-R1", "wiring", pos, "the function that combines source and base (fetchProfiles or its helper) does not call combineProfiles exactly once")
		return
	}
	src, base := wsrc, wbase
	if src == nil || base == nil {
		c.undecided("C07-R1", "wiring", pos, "results of grabSourcesAndBases not found")
		return
	}
	cmb := combine[0]
	// negation
	switch {
	case len(scale) != 1:
		c.bad("C07-R1", "negate-base", pos, fmt.Sprintf("fetchProfiles scales a profile %d times before combining source and base; the base must be negated exactly once", len(scale)))
	default:
		sc := scale[0]
		k, isConst := sc.Call.Args[1].(*ssa.Const)
		switch {
		case sc.Call.Args[0] != base:
			c.bad("C07-R1", "negate-base", p.relFile(sc.Pos()), "fetchProfiles negates "+describeValue(sc.Call.Args[0])+" instead of the base profile: source minus base becomes base minus source (or a sum)")
		case !isConst || k.Value == nil || k.Value.ExactString() != "-1":
			c.bad("C07-R1", "negate-base", p.relFile(sc.Pos()), "the base profile is scaled by something other than the constant -1")
		case !instrDominates(sc, cmb):
			c.bad("C07-R1", "negate-base", p.relFile(sc.Pos()), "the negation of the base does not precede combineProfiles on every path")
		default:
			c.ok("C07-R1", "negate-base", p.relFile(sc.Pos()), "the base, and only the base, is negated once before source and base are combined", "Scale(-1) on the second result of grabSourcesAndBases dominates combineProfiles")
		}
	}
	// normalisation
	switch {
	case len(norm) != 1:
		c.undecided("C07-R1", "normalize", pos, fmt.Sprintf("expected one Normalize call in fetchProfiles, found %d", len(norm)))
	default:
		nm := norm[0]
		guarded := false
		for d, child := nm.Block().Idom(), nm.Block(); d != nil; child, d = d, d.Idom() {
			if iff, ok := d.Instrs[len(d.Instrs)-1].(*ssa.If); ok && d.Succs[0] == child && len(child.Preds) == 1 && fieldFlag(p, iff.Cond, "driver.source", "Normalize", 0) {
				guarded = true
			}
		}
		before := len(scale) == 1 && (nm.Block() == scale[0].Block() && instrIndex(nm) < instrIndex(scale[0]) ||
			nm.Block() != scale[0].Block() && blockReachesPlain(nm.Block(), scale[0].Block()) && !blockReachesPlain(scale[0].Block(), nm.Block()))
		switch {
		case nm.Call.Args[0] != src || nm.Call.Args[1] != base:
			c.bad("C07-R1", "normalize", p.relFile(nm.Pos()), "fetchProfiles does not normalise the source against the base (receiver "+describeValue(nm.Call.Args[0])+", argument "+describeValue(nm.Call.Args[1])+"): with -normalize the base would be rescaled instead of the source")
		case !guarded:
			c.bad("C07-R1", "normalize", p.relFile(nm.Pos()), "the source is normalised although -normalize was not requested (the call is not on the taken branch of s.Normalize)")
		case !before:
			c.bad("C07-R1", "normalize", p.relFile(nm.Pos()), "the source is normalised after the base was negated: the ratios base/source are negative and the source changes sign")
		default:
			c.ok("C07-R1", "normalize", p.relFile(nm.Pos()), "with -normalize the source is scaled to the base total before the base is negated", "source.Normalize(base) on the s.Normalize branch, before Scale(-1)")
		}
	}
	// combination
	vals := variadicValues(cmb.Call.Args[0])
	if len(vals) == 2 && vals[0] == src && vals[1] == base {
		c.ok("C07-R1", "combine", p.relFile(cmb.Pos()), "source and negated base are combined, source first", "combineProfiles([source, base])")
	} else {
		c.bad("C07-R1", "combine", p.relFile(cmb.Pos()), "combineProfiles is not given exactly [source, base] in that order: header precedence and the main mapping would come from the base, or one of the two is left out")
	}
}

// ---- R2
func (c *Check) combineOrder() {
	p := c.P
	f := c.anchorFn("C07-R2", "internal/driver", "combineProfiles")
	if f == nil {
		return
	}
	steps := []string{"CompatibilizeSampleTypes", "ScaleProfiles", "Merge"}
	calls := map[string]*ssa.Call{}
	for _, b := range f.Blocks {
		for _, ins := range b.Instrs {
			if call, ok := ins.(*ssa.Call); ok && call.Call.StaticCallee() != nil {
				for _, s := range steps {
					if call.Call.StaticCallee().Name() == s {
						calls[s] = call
					}
				}
			}
		}
	}
	for i, s := range steps {
		key := "step:" + s
		call := calls[s]
		switch {
		case call == nil:
			c.bad("C07-R2", key, p.relFile(f.Pos()), "combineProfiles no longer calls "+s+": profiles with permuted sample types or different units would be merged column by column as they are")
		case call.Call.Args[0] != ssa.Value(f.Params[0]):
			c.bad("C07-R2", key, p.relFile(call.Pos()), s+" is not applied to the list of profiles combineProfiles received")
		case i > 0 && calls[steps[i-1]] != nil && !instrDominates(calls[steps[i-1]], call):
			c.bad("C07-R2", key, p.relFile(call.Pos()), s+" is not preceded by "+steps[i-1]+" on every path: values would be merged before columns are aligned and units harmonised")
		case !errChecked(call):
			c.bad("C07-R2", key, p.relFile(call.Pos()), "the error of "+s+" is not examined")
		default:
			c.ok("C07-R2", key, p.relFile(call.Pos()), s+" runs on the received profiles, in order, and its error is returned", "dominance of the preceding step; error compared with nil")
		}
	}
}

// errChecked: the error result of the call (itself, or its last tuple component) is compared with nil.
func errChecked(call *ssa.Call) bool {
	var errs []ssa.Value
	if typeShort(call.Type()) == "error" {
		errs = append(errs, call)
	}
	if call.Referrers() != nil {
		for _, r := range *call.Referrers() {
			if e, ok := r.(*ssa.Extract); ok && typeShort(e.Type()) == "error" {
				errs = append(errs, e)
			}
		}
	}
	for _, e := range errs {
		if e.Referrers() == nil {
			continue
		}
		for _, r := range *e.Referrers() {
			if cmp, ok := r.(*ssa.BinOp); ok && (cmp.Op == token.NEQ || cmp.Op == token.EQL) {
				return true
			}
		}
	}
	return false
}

// sumsOf: for an int64 slice made in f, the parameters whose Sample list is loaded in the
// loop(s) that add into it.
func accumulatesFrom(f *ssa.Function, slice ssa.Value) map[*ssa.Parameter]bool {
	out := map[*ssa.Parameter]bool{}
	// the sums may be produced by a helper that is handed the sample list
	if call, ok := slice.(*ssa.Call); ok && call.Call.StaticCallee() != nil && fnInModule(call.Call.StaticCallee()) {
		for _, pr := range f.Params {
			pr := pr
			for _, a := range call.Call.Args {
				if mustDependMem(a, func(v ssa.Value) bool {
					ld, ok := v.(*ssa.UnOp)
					if !ok || ld.Op != token.MUL {
						return false
					}
					fa, ok := ld.X.(*ssa.FieldAddr)
					if !ok || fa.X != ssa.Value(pr) {
						return false
					}
					_, F := fieldOf(fa.X.Type(), fa.Field)
					return F == "Sample"
				}) {
					out[pr] = true
				}
			}
		}
		return out
	}
	for _, b := range f.Blocks {
		for _, ins := range b.Instrs {
			st, ok := ins.(*ssa.Store)
			if !ok {
				continue
			}
			ia, ok := st.Addr.(*ssa.IndexAddr)
			if !ok || ia.X != slice {
				continue
			}
			if add, ok := st.Val.(*ssa.BinOp); !ok || add.Op != token.ADD {
				continue
			}
			// the value added: an element of s.Value where s is an element of X.Sample
			for _, pr := range f.Params {
				if mustDependMem(st.Val, func(v ssa.Value) bool {
					ld, ok := v.(*ssa.UnOp)
					if !ok || ld.Op != token.MUL {
						return false
					}
					fa, ok := ld.X.(*ssa.FieldAddr)
					if !ok || fa.X != ssa.Value(pr) {
						return false
					}
					_, F := fieldOf(fa.X.Type(), fa.Field)
					return F == "Sample"
				}) {
					out[pr] = true
				}
			}
		}
	}
	return out
}

// ---- R3
func (c *Check) normalizeShape() {
	p := c.P
	f := c.anchorFn("C07-R3", "profile", "(*Profile).Normalize")
	if f == nil {
		return
	}
	pos := p.relFile(f.Pos())
	recv, base := f.Params[0], f.Params[1]
	var quo *ssa.BinOp
	for _, b := range helperBlocks(f, 2) {
		for _, ins := range b.Instrs {
			if q, ok := ins.(*ssa.BinOp); ok && q.Op == token.QUO {
				if _, isFloat := q.Type().Underlying().(*types.Basic); isFloat && (quo == nil || b.Parent() == f) {
					if bt := q.Type().Underlying().(*types.Basic); bt.Info()&types.IsFloat != 0 {
						quo = q
					}
				}
			}
		}
	}
	if quo == nil {
		c.undecided("C07-R3", "ratio", pos, "no quotient found in Normalize")
		return
	}
	numArr, numIdx, ok1 := loadIndex(stripConv(quo.X))
	denArr, denIdx, ok2 := loadIndex(stripConv(quo.Y))
	if !ok1 || !ok2 {
		c.undecided("C07-R3", "ratio", p.relFile(quo.Pos()), "the normalisation ratio is not a quotient of two per-column sums")
		return
	}
	// the ratios may be computed by a helper that receives the two lists of sums
	numFrom, denFrom := accumulatesFrom(f, argOfParam(p, numArr, 0)), accumulatesFrom(f, argOfParam(p, denArr, 0))
	switch {
	case numIdx != denIdx:
		c.bad("C07-R3", "ratio", p.relFile(quo.Pos()), "Normalize divides the sum of one column by the sum of a different column")
	case !(numFrom[base] && !numFrom[recv] && denFrom[recv] && !denFrom[base]):
		c.bad("C07-R3", "ratio", p.relFile(quo.Pos()), "the normalisation ratio is not (sum over the base) / (sum over the source) of the same column: the source would be scaled away from the base total instead of onto it")
	default:
		c.ok("C07-R3", "ratio", p.relFile(quo.Pos()), "ratio of column i = base sum of column i / source sum of column i", "numerator accumulates the argument's samples, denominator the receiver's, same index")
	}
	// stored into slot i, under a zero guard on the divisor
	stored, guarded := false, false
	if quo.Referrers() != nil {
		for _, r := range *quo.Referrers() {
			if st, ok := r.(*ssa.Store); ok {
				if ia, ok := st.Addr.(*ssa.IndexAddr); ok && ia.Index == numIdx {
					stored = true
				}
			}
		}
	}
	for d, child := quo.Block().Idom(), quo.Block(); d != nil; child, d = d, d.Idom() {
		iff, ok := d.Instrs[len(d.Instrs)-1].(*ssa.If)
		if !ok || len(child.Preds) != 1 {
			continue
		}
		if cmp, ok := iff.Cond.(*ssa.BinOp); ok && (cmp.Op == token.EQL || cmp.Op == token.NEQ) {
			arr, idx, isIdx := loadIndex(cmp.X)
			k, isK := constInt(cmp.Y)
			if isIdx && isK && k == 0 && arr == denArr && idx == denIdx {
				if (cmp.Op == token.EQL && d.Succs[1] == child) || (cmp.Op == token.NEQ && d.Succs[0] == child) {
					guarded = true
				}
			}
		}
	}
	if stored && guarded {
		c.ok("C07-R3", "ratio:slot", p.relFile(quo.Pos()), "the ratio of column i is stored in slot i and computed only when the source sum is non-zero", "store index = column index; dominating zero test of the divisor")
	} else {
		c.bad("C07-R3", "ratio:slot", p.relFile(quo.Pos()), fmt.Sprintf("the ratio is not stored in the slot of its own column (%v) or the division is not guarded against a zero source sum (%v)", stored, guarded))
	}
	// applied to the receiver; the base is never written
	applied := false
	for _, b := range f.Blocks {
		for _, ins := range b.Instrs {
			switch x := ins.(type) {
			case *ssa.Call:
				if x.Call.StaticCallee() != nil && x.Call.StaticCallee().Name() == "ScaleN" && x.Call.Args[0] == ssa.Value(recv) {
					applied = true
				}
				if x.Call.StaticCallee() != nil && (x.Call.StaticCallee().Name() == "ScaleN" || x.Call.StaticCallee().Name() == "Scale") && x.Call.Args[0] == ssa.Value(base) {
					c.bad("C07-R3", "apply", p.relFile(x.Pos()), "Normalize rescales the base profile")
					return
				}
			case *ssa.Store:
				if sourceDerived(x.Addr, func(pr *ssa.Parameter) bool { return pr == base }, map[ssa.Value]bool{}) != "" {
					c.bad("C07-R3", "apply", p.relFile(x.Pos()), "Normalize writes through the base profile")
					return
				}
			}
		}
	}
	if applied {
		c.ok("C07-R3", "apply", pos, "the factors are applied to the source; the base is left untouched", "ScaleN on the receiver, no store through the argument")
	} else {
		c.bad("C07-R3", "apply", pos, "Normalize does not apply the computed factors to the source profile")
	}
}

// ---- R4
func (c *Check) scaleProfilesPairing() {
	p := c.P
	f := c.anchorFn("C07-R4", "internal/measurement", "ScaleProfiles")
	if f == nil {
		return
	}
	n := 0
	// the per-profile rescaling may be written in ScaleProfiles or in a helper it calls
	for _, b := range helperBlocks(f, 2) {
		for _, ins := range b.Instrs {
			call, ok := ins.(*ssa.Call)
			if !ok || call.Call.StaticCallee() == nil || call.Call.StaticCallee().Name() != "ScaleN" {
				continue
			}
			n++
			prof, ratios := call.Call.Args[0], call.Call.Args[1]
			// every store into ratios: slot i holds Scale(1, unit of column i of this profile, common unit of column i)
			bad := ""
			stores := 0
			// slots of the factor list: indexed stores, or the one append per iteration of
			// the column loop when the list is grown instead
			type slot struct {
				idx ssa.Value       // index expression (indexed store), nil for an append
				hdr *ssa.BasicBlock // header of the loop around an append
				val ssa.Value
			}
			var slots []slot
			for _, b2 := range b.Parent().Blocks {
				for _, i2 := range b2.Instrs {
					st, ok := i2.(*ssa.Store)
					if !ok {
						continue
					}
					ia, ok := st.Addr.(*ssa.IndexAddr)
					if !ok || ia.X != ratios {
						continue
					}
					slots = append(slots, slot{ia.Index, nil, st.Val})
				}
			}
			for _, hs := range harvestSites(b.Parent()) {
				if app, isCall := hs.ins.(*ssa.Call); isCall && (ssa.Value(app) == ratios || phiReaches(ratios, app, map[ssa.Value]bool{})) {
					slots = append(slots, slot{nil, loopHeaderAround(app.Block()), hs.val})
				}
			}
			sameSlot := func(sl slot, idx ssa.Value) bool {
				if sl.idx != nil {
					return idx == sl.idx
				}
				h := loopHeaderOfIndex(idx)
				return h != nil && h == sl.hdr
			}
			for _, sl := range slots {
				vals := []ssa.Value{sl.val}
				if ph, isPhi := sl.val.(*ssa.Phi); isPhi {
					vals = ph.Edges
				}
				for _, val := range vals {
					stores++
					if k, ok := val.(*ssa.Const); ok && k.Value != nil && (k.Value.ExactString() == "1" || k.Value.String() == "1") {
						continue // no common type for this column: left as is
					}
					ex, ok := val.(*ssa.Extract)
					if !ok {
						bad = "a factor is not the result of Scale"
						continue
					}
					sc, ok := ex.Tuple.(*ssa.Call)
					if !ok || sc.Call.StaticCallee() == nil || sc.Call.StaticCallee().Name() != "Scale" || len(sc.Call.Args) != 3 {
						bad = "a factor is not the result of Scale"
						continue
					}
					if k, ok := constInt(sc.Call.Args[0]); !ok || k != 1 {
						bad = "the factor is not Scale(1, from, to)"
					}
					// from: Unit of p.SampleType[i]; to: Unit of common[i]
					unitOf := func(v ssa.Value) (ssa.Value, ssa.Value, bool) {
						ld, ok := v.(*ssa.UnOp)
						if !ok || ld.Op != token.MUL {
							return nil, nil, false
						}
						fa, ok := ld.X.(*ssa.FieldAddr)
						if !ok {
							return nil, nil, false
						}
						if _, F := fieldOf(fa.X.Type(), fa.Field); F != "Unit" {
							return nil, nil, false
						}
						return loadIndex(fa.X)
					}
					fromArr, fromIdx, okF := unitOf(sc.Call.Args[1])
					_, toIdx, okT := unitOf(sc.Call.Args[2])
					switch {
					case !okF || !okT:
						bad = "the units handed to Scale are not the column's own unit and the common unit of a column"
					case !sameSlot(sl, fromIdx) || !sameSlot(sl, toIdx):
						bad = "the factor stored in slot i is computed from the units of a different column"
					default:
						if ld, ok := fromArr.(*ssa.UnOp); !ok || ld.Op != token.MUL {
							bad = "the source unit is not read from the profile being scaled"
						} else if fa, ok := ld.X.(*ssa.FieldAddr); !ok || fa.X != prof {
							bad = "the source unit is read from a different profile than the one the factors are applied to"
						}
					}
				}
			}
			key := "pairing"
			switch {
			case stores == 0:
				c.undecided("C07-R4", key, p.relFile(call.Pos()), "no factor is stored into the list handed to ScaleN")
			case bad != "":
				c.bad("C07-R4", key, p.relFile(call.Pos()), "ScaleProfiles: "+bad+": values of one column or profile are converted with the ratio of another")
			default:
				c.ok("C07-R4", key, p.relFile(call.Pos()), "each profile's column i is scaled by Scale(1, its own unit of column i, common unit of column i)", fmt.Sprintf("%d stores into the factor list, all with matching indices and the profile the list is applied to", stores))
			}
		}
	}
	if n != 1 {
		c.undecided("C07-R4", "pairing:count", p.relFile(f.Pos()), fmt.Sprintf("expected one ScaleN call in ScaleProfiles, found %d", n))
	}
}

// ---- R5
func (c *Check) scaleNKeepsWeight() {
	p := c.P
	f := c.anchorFn("C07-R5", "profile", "(*Profile).ScaleN")
	if f == nil {
		return
	}
	// the non-zero test that feeds the keep decision
	n := 0
	// the column loop may be written in ScaleN (inside the sample loop) or in a per-sample
	// helper that ScaleN calls from its sample loop
	helperDepth := map[*ssa.Function]int{f: 0}
	for _, es := range effectiveSites(f, func(ins ssa.Instruction) bool {
		cmp, ok := ins.(*ssa.BinOp)
		return ok && cmp.Op == token.NEQ
	}, 2) {
		if es.via != nil && nestingDepth(es.at.Block()) >= 1 {
			helperDepth[es.via] = 1
		}
	}
	for _, b := range helperBlocks(f, 2) {
		outer, known := helperDepth[b.Parent()]
		if !known {
			continue
		}
		for _, ins := range b.Instrs {
			cmp, ok := ins.(*ssa.BinOp)
			if !ok || cmp.Op != token.NEQ {
				continue
			}
			if k, ok := constInt(cmp.Y); !ok || k != 0 {
				continue
			}
			if bt, ok := cmp.X.Type().Underlying().(*types.Basic); !ok || bt.Kind() != types.Int64 {
				continue
			}
			if nestingDepth(b)+outer < 2 {
				continue
			}
			n++
			key := "keep:ScaleN"
			if skippableInIteration(b) {
				c.bad("C07-R5", key, p.relFile(cmp.Pos()), "ScaleN decides whether a sample is kept without looking at every column: the non-zero test is skipped for columns whose factor is 1, so a sample whose scaled columns round to zero is dropped although it still has weight in an unscaled column (harmonising one column's unit loses counts in the others)")
			} else {
				c.ok("C07-R5", key, p.relFile(cmp.Pos()), "a sample is dropped by ScaleN only when all of its values are zero", "the non-zero test runs on every path through the column loop")
			}
		}
	}
	if n != 1 {
		c.undecided("C07-R5", "keep:count", p.relFile(f.Pos()), fmt.Sprintf("expected one non-zero test feeding the keep decision in ScaleN's column loop, found %d", n))
	}
}

// ---- R6
func (c *Check) compatibilizeIndexMap() {
	p := c.P
	f := c.anchorFn("C07-R6", "profile", "compatibilizeSampleTypes")
	if f == nil {
		return
	}
	// stores X[i] = Y[idx] in loops: i must be the range index and idx the range element of one and the same index map
	var maps []ssa.Value
	n := 0
	for _, b := range f.Blocks {
		for _, ins := range b.Instrs {
			st, ok := ins.(*ssa.Store)
			if !ok {
				continue
			}
			ia, ok := st.Addr.(*ssa.IndexAddr)
			if !ok || !isForwardIndex(ia.Index) {
				continue
			}
			_, srcIdx, ok := loadIndex(st.Val)
			if !ok {
				continue
			}
			mArr, mIdx, ok := loadIndex(srcIdx)
			if !ok {
				continue
			}
			n++
			key := fmt.Sprintf("remap:%s", typeShort(st.Val.Type()))
			if mIdx != ia.Index {
				c.bad("C07-R6", key, p.relFile(st.Pos()), "compatibilizeSampleTypes fills slot i from the index map's entry of a different position")
				continue
			}
			maps = append(maps, mArr)
			c.ok("C07-R6", key, p.relFile(st.Pos()), "slot i is filled from old[map[i]]", "destination index and map index are the same range index")
		}
	}
	// the same re-ordering written as `for _, idx := range map { new = append(new, old[idx]) }`:
	// the k-th element appended to an initially empty slice is old[map[k]]
	for _, b := range f.Blocks {
		for _, ins := range b.Instrs {
			call, ok := ins.(*ssa.Call)
			if !ok {
				continue
			}
			bi, ok := call.Call.Value.(*ssa.Builtin)
			if !ok || bi.Name() != "append" || len(call.Call.Args) != 2 {
				continue
			}
			elems := variadicValues(call.Call.Args[1])
			if len(elems) != 1 {
				continue
			}
			_, srcIdx, ok := loadIndex(elems[0])
			if !ok {
				continue
			}
			mArr, mIdx, ok := loadIndex(srcIdx)
			if !ok || !isForwardIndex(mIdx) {
				continue
			}
			n++
			key := fmt.Sprintf("remap:%s", typeShort(elems[0].Type()))
			acc, isPhi := call.Call.Args[0].(*ssa.Phi)
			emptyStart := isPhi
			if isPhi {
				for _, e := range acc.Edges {
					if e == ssa.Value(call) {
						continue
					}
					switch x := e.(type) {
					case *ssa.MakeSlice:
						if k, ok := constInt(x.Len); !ok || k != 0 {
							emptyStart = false
						}
					case *ssa.Const:
						if !x.IsNil() {
							emptyStart = false
						}
					default:
						emptyStart = false
					}
				}
			}
			if !emptyStart || skippableInIteration(b) {
				c.bad("C07-R6", key, p.relFile(call.Pos()), "compatibilizeSampleTypes builds the re-ordered list by appending, but not exactly one element per entry of the index map starting from an empty list: positions no longer correspond to the map")
				continue
			}
			maps = append(maps, mArr)
			c.ok("C07-R6", key, p.relFile(call.Pos()), "slot i is filled from old[map[i]]", "one element old[map[k]] is appended per entry k of the index map, starting from an empty list")
		}
	}
	if n < 2 {
		c.undecided("C07-R6", "remap:count", p.relFile(f.Pos()), fmt.Sprintf("expected the re-ordering of sample types and of values in compatibilizeSampleTypes, found %d index-mapped stores", n))
		return
	}
	same := true
	for _, m := range maps {
		if m != maps[0] {
			same = false
		}
	}
	if same {
		c.ok("C07-R6", "remap:same", p.relFile(f.Pos()), "sample types and sample values are re-ordered with the same index map", "one slice is indexed by both loops")
	} else {
		c.bad("C07-R6", "remap:same", p.relFile(f.Pos()), "sample types and sample values are re-ordered with different index maps: columns no longer match their types")
	}
}

// fieldFlag: v is the option field T.F, read directly or received through a parameter whose
// argument is that field at every call of the function (which is never used as a value).
func fieldFlag(p *Program, v ssa.Value, T, F string, depth int) bool {
	if isFieldLoad(v, T, F) {
		return true
	}
	par, ok := v.(*ssa.Parameter)
	if !ok || depth > 2 {
		return false
	}
	fn := par.Parent()
	idx := -1
	for i, q := range fn.Params {
		if q == par {
			idx = i
		}
	}
	calls, asValue := directCallSites(p, fn)
	if idx < 0 || asValue || len(calls) == 0 {
		return false
	}
	for _, call := range calls {
		if idx >= len(call.Common().Args) || !fieldFlag(p, call.Common().Args[idx], T, F, depth+1) {
			return false
		}
	}
	return true
}
