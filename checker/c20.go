package main

import (
	"fmt"
	"go/constant"
	"go/token"
	"go/types"
	"sort"
	"strings"

	"golang.org/x/tools/go/ssa"
)

func init() { register("C20", true, runC20) }

func runC20(c *Check) {
	c.Explanation = "Decides the lock-discipline clauses of C20 for every interleaving: each piece of state shared between goroutines is only accessed with its guard held — currentCfg under currentMu, tempFiles under tempFilesMu, Binutils.rep under Binutils.mu, the addr2line / llvm-symbolizer pipes under their mutexes (helpers that touch the pipe are only called with the lock held), the encode scratch fields of a profile only from preEncode/encode under encodeMu or on objects freshly allocated by the decoder, once-initialised fields only inside their sync.Once (R1); every package-level variable written outside init is in that table or a listed test tap / start-up flag (R2); temporary files are created with O_CREATE|O_EXCL or os.CreateTemp, and the only plain os.Create is the user-named output file (R3); a published binrep is never written: stores to its fields only hit objects allocated in the same get/update cycle (R4); the fetch goroutines obey the barrier and slot rules (R5, shared with C16). Also: the option store is replaced wholesale (locked getter … locked setter) only at start-up, never from the interactive loop or a web handler (R4). Round-I additions: computeBase runs under a single sync.Once object; no function returns memory of an object it puts back into a sync.Pool; a slice read from a guarded package variable is used after the unlock only if the variable was given unrelated contents inside the critical section. Not decided: deadlock freedom beyond the absence of nested acquisitions, torn output of external tools, races inside plug-ins."
	c.guardedGlobals()
	c.guardedFields()
	c.scratchFields()
	c.onceFields()
	c.oneOncePerField()
	c.noRecycledResult()
	c.guardedValueStaysUnderLock()
	c.globalWriters()
	c.tempFileCreation()
	c.binrepImmutable()
	c.goroutineRules("C20", "internal/driver", []string{"grabSourcesAndBases", "concurrentGrab"})
	c.nestedLocks()
	c.readModifyWrite()
	c.snapshotPublish()
	c.perRequestState("C20-R2")
}

// snapshotPublish (R4c): the option store (driver.currentCfg) may be replaced wholesale
// only at start-up.  A function that obtains a copy through the locked getter and later
// hands a value to the locked setter performs a read-modify-write across two critical
// sections; once the interactive loop or the web server runs, two such updates can
// interleave and one is lost, although every single access is locked.
func (c *Check) snapshotPublish() {
	p := c.P
	store := findOptionStore(p)
	if store == nil {
		c.undecided("C20-R4", "snapshot:currentCfg", "", "the persistent option store of package driver was not found")
		return
	}
	glob := store.global
	// isStore: the address of the stored config (the global itself, or the config field of a
	// store object)
	isStore := func(a ssa.Value) bool {
		if store.direct {
			return a == ssa.Value(glob)
		}
		fa, ok := a.(*ssa.FieldAddr)
		if !ok {
			return false
		}
		T, F := fieldOf(fa.X.Type(), fa.Field)
		return T == store.T && F == store.cfgField
	}
	getters, setters := map[*ssa.Function]bool{}, map[*ssa.Function]bool{}
	forAllPkgFuncs(p, "internal/driver", func(f *ssa.Function) {
		for _, b := range f.Blocks {
			for _, ins := range b.Instrs {
				switch x := ins.(type) {
				case *ssa.Store:
					if isStore(x.Addr) {
						if _, isP := x.Val.(*ssa.Parameter); isP {
							setters[f] = true
						}
					}
				case *ssa.UnOp:
					// a whole-value load in a function returning that type (the return itself is
					// spilled through a result cell when the unlock is deferred)
					if x.Op == token.MUL && isStore(x.X) && f.Signature.Results().Len() == 1 &&
						types.Identical(f.Signature.Results().At(0).Type(), x.Type()) {
						getters[f] = true
					}
				}
			}
		}
	})
	// wrappers: a function that hands its own parameter to a setter, or returns a getter's result
	for changed := true; changed; {
		changed = false
		forAllPkgFuncs(p, "internal/driver", func(f *ssa.Function) {
			for _, b := range f.Blocks {
				for _, ins := range b.Instrs {
					call, ok := ins.(*ssa.Call)
					if !ok || call.Call.StaticCallee() == nil {
						continue
					}
					if setters[call.Call.StaticCallee()] && !setters[f] {
						for _, a := range call.Call.Args {
							if par, isP := a.(*ssa.Parameter); isP && structName(par.Type()) == "driver.config" {
								setters[f], changed = true, true
							}
						}
					}
					if getters[call.Call.StaticCallee()] && !getters[f] && f.Signature.Results().Len() == 1 && call.Referrers() != nil {
						for _, r := range *call.Referrers() {
							if _, isRet := r.(*ssa.Return); isRet {
								getters[f], changed = true, true
							}
						}
					}
				}
			}
		})
	}
	if len(getters) == 0 || len(setters) == 0 {
		c.undecided("C20-R4", "snapshot:currentCfg", "", fmt.Sprintf("locked accessors of the option store %s not recognised (%d getters, %d setters)", store.storeName(), len(getters), len(setters)))
		return
	}
	// session roots: everything that runs once commands or requests are being served
	var roots []*ssa.Function
	forAllPkgFuncs(p, "internal/driver", func(f *ssa.Function) {
		if f.Parent() != nil {
			return
		}
		if f.Name() == "interactive" || f.Name() == "serveWebInterface" ||
			(f.Signature.Recv() != nil && structName(f.Signature.Recv().Type()) == "driver.webInterface") {
			roots = append(roots, f)
		}
	})
	parent, _ := p.MG().Reach(roots, nil)
	n := 0
	forAllPkgFuncs(p, "internal/driver", func(f *ssa.Function) {
		var set, get ssa.CallInstruction
		for _, b := range f.Blocks {
			for _, ins := range b.Instrs {
				if call, ok := ins.(ssa.CallInstruction); ok && call.Common().StaticCallee() != nil {
					if setters[call.Common().StaticCallee()] {
						set = call
					}
					if getters[call.Common().StaticCallee()] {
						get = call
					}
				}
			}
		}
		if set == nil || setters[f] {
			return
		}
		n++
		key := "snapshot:" + fnName(f)
		_, inSession := parent[f]
		switch {
		case !inSession:
			c.ok("C20-R4", key, p.relFile(set.Pos()), fnName(f)+" replaces the option store only at start-up", "it is not reachable from the interactive loop, serveWebInterface or any web handler")
		case get != nil:
			c.bad("C20-R4", key, p.relFile(set.Pos()), fnName(f)+" takes a snapshot of the options with "+get.Common().StaticCallee().Name()+"() and later publishes a value with "+set.Common().StaticCallee().Name()+"(): each call is locked but the lock is released in between, so two concurrent option updates can start from the same snapshot and one is lost ("+callPath(parent, f)+")")
		default:
			c.bad("C20-R4", key, p.relFile(set.Pos()), fnName(f)+" replaces the whole option store while commands or requests are being served ("+callPath(parent, f)+"): concurrent single-option updates are overwritten")
		}
	})
	if n == 0 {
		c.undecided("C20-R4", "snapshot:currentCfg", "", "no caller of the option store's setter found")
	}
}

// readModifyWrite (R4b): a function that publishes a new value of a guarded field computed
// from the old one must read the old value in the same critical section as the store;
// reading it through a helper that takes the lock on its own (or before the lock is taken)
// lets two writers start from the same snapshot and lose one update.
func (c *Check) readModifyWrite() {
	p := c.P
	for _, g := range []struct{ T, F, mu, reader string }{{"binutils.Binutils", "rep", "mu", "get"}} {
		accs := fieldAccesses(p, g.T, g.F)
		byFn := map[*ssa.Function][]*ssa.FieldAddr{}
		for _, a := range accs {
			byFn[a.Parent()] = append(byFn[a.Parent()], a)
		}
		for f, fas := range byFn {
			var stores, loads []ssa.Instruction
			for _, fa := range fas {
				for _, r := range *fa.Referrers() {
					switch x := r.(type) {
					case *ssa.Store:
						if x.Addr == ssa.Value(fa) {
							stores = append(stores, x)
						}
					case *ssa.UnOp:
						loads = append(loads, x)
					}
				}
			}
			if len(stores) == 0 {
				continue
			}
			key := "rmw:" + fnName(f)
			bad := ""
			// a helper that reads the field under its own lock must not be called here
			for _, b := range f.Blocks {
				for _, ins := range b.Instrs {
					if call, ok := ins.(ssa.CallInstruction); ok && call.Common().StaticCallee() != nil && call.Common().StaticCallee().Name() == g.reader && call.Common().StaticCallee() != f {
						if structName(call.Common().StaticCallee().Signature.Recv().Type()) == g.T {
							bad = "it reads the current value through " + g.reader + "(), a separate critical section, before publishing the new one"
						}
					}
				}
			}
			// direct reads and the store share one lock acquisition
			for _, st := range stores {
				for _, ld := range loads {
					if !sameLockSection(f, ld, st) {
						bad = "the old value is read outside the critical section in which the new one is stored"
					}
				}
			}
			if bad == "" {
				c.ok("C20-R4", key, p.relFile(stores[0].Pos()), fnName(f)+" updates "+g.T+"."+g.F+" atomically", "the old value is read and the new one stored under one acquisition of the mutex")
			} else {
				c.bad("C20-R4", key, p.relFile(stores[0].Pos()), fnName(f)+" publishes a new "+g.T+"."+g.F+" but "+bad+": two concurrent setters can start from the same snapshot and one update is lost")
			}
		}
	}
}

// sameLockSection: a and b are both dominated by the same Lock call with no Unlock of that
// mutex executable between them.
func sameLockSection(f *ssa.Function, a, b ssa.Instruction) bool {
	calls := lockCalls(f)
	for _, lc := range calls {
		if !lc.lock || !instrDominates(lc.ins, a) || !instrDominates(lc.ins, b) {
			continue
		}
		ok := true
		for _, uc := range calls {
			if uc.lock || uc.defer_ || uc.id != lc.id {
				continue
			}
			first, second := a, b
			if instrDominates(b, a) {
				first, second = b, a
			}
			// an unlock that can run after `first` and before `second`
			if (instrDominates(first, uc.ins) || first.Block() != uc.ins.Block() && blockReachesPlain(first.Block(), uc.ins.Block())) &&
				(instrDominates(uc.ins, second) || uc.ins.Block() != second.Block() && blockReachesPlain(uc.ins.Block(), second.Block())) {
				ok = false
			}
		}
		if ok {
			return true
		}
	}
	return false
}

// perRequestState: web handlers keep their state per request: the functions that serve a
// request never write fields of the server-wide webInterface or of the shared
// plugin.Options (they work on copies).
func (c *Check) perRequestState(rule string) {
	p := c.P
	m := newModAnalyzer(p)
	n := 0
	forAllPkgFuncs(p, "internal/driver", func(f *ssa.Function) {
		if f.Signature.Recv() == nil || structName(f.Signature.Recv().Type()) != "driver.webInterface" {
			if f.Parent() == nil || f.Parent().Signature.Recv() == nil || structName(f.Parent().Signature.Recv().Type()) != "driver.webInterface" {
				return
			}
		}
		n++
		bad := ""
		for _, e := range m.direct(f) {
			if e.Root == rFresh {
				continue
			}
			if e.T == "plugin.Options" || e.T == "driver.webInterface" {
				bad = fmt.Sprintf("%s (%s) at %s", e.Target(), e.What, p.relFile(e.Pos))
			}
		}
		key := "per-request:" + fnName(f)
		if bad == "" {
			c.ok(rule, key, p.relFile(f.Pos()), fnName(f)+" keeps its state per request", "no store into the shared webInterface or plugin.Options; options are modified on a local copy")
		} else {
			c.bad(rule, key, p.relFile(f.Pos()), fnName(f)+" writes server-wide state while serving a request: "+bad+"; concurrent requests see each other's settings and diagnostics")
		}
	})
	if n < 8 {
		c.undecided(rule, "per-request:count", "", "fewer webInterface methods than expected")
	}
}

// guardedGlobals: every reference to the global is made with the mutex held.
func (c *Check) guardedGlobals() {
	p := c.P
	globals := []struct{ rel, name, mu string }{{"internal/driver", "tempFiles", "global:tempFilesMu"}}
	if store := findOptionStore(p); store == nil {
		c.undecided("C20-R1", "anchor:currentCfg", "", "the persistent option store of package driver was not found")
	} else if store.direct {
		globals = append([]struct{ rel, name, mu string }{{"internal/driver", store.global.Name(), store.muGlobal}}, globals...)
	} else {
		// the options live in a struct next to their mutex: every access of the field is made
		// with that object's mutex held
		c.guardedField(guardedFieldSpec{T: store.T, F: store.cfgField, mu: store.muField})
	}
	for _, g := range globals {
		gv := p.SSAPkg(g.rel).Var(g.name)
		if gv == nil {
			c.undecided("C20-R1", "anchor:"+g.name, "", "global "+g.name+" not found")
			continue
		}
		n := 0
		for _, ins := range globalRefs(p, gv) {
			f := ins.Parent()
			if f.Name() == "init" {
				continue
			}
			n++
			key := fmt.Sprintf("guard:%s@%s", g.name, fnName(f))
			if heldAt(f, ins)[g.mu] {
				c.ok("C20-R1", key, p.relFile(ins.Pos()), g.name+" accessed in "+fnName(f), "mutex "+strings.TrimPrefix(g.mu, "global:")+" is held at the access (Lock dominates, no intervening Unlock)")
			} else {
				c.bad("C20-R1", key, p.relFile(ins.Pos()), g.name+" is accessed in "+fnName(f)+" without holding "+strings.TrimPrefix(g.mu, "global:"))
			}
		}
		if n == 0 {
			c.undecided("C20-R1", "guard:"+g.name, "", "no access of "+g.name+" found")
		}
	}
}

// fieldAccesses lists instructions that take the address of field T.F (loads and stores go through it).
func fieldAccesses(p *Program, T, F string) []*ssa.FieldAddr {
	var out []*ssa.FieldAddr
	var fns []*ssa.Function
	for f := range p.AllFns {
		if f.Blocks != nil && fnInModule(f) {
			fns = append(fns, f)
		}
	}
	sortFns(fns)
	for _, f := range fns {
		for _, b := range f.Blocks {
			for _, ins := range b.Instrs {
				if fa, ok := ins.(*ssa.FieldAddr); ok {
					if t, fn := fieldOf(fa.X.Type(), fa.Field); t == T && fn == F {
						out = append(out, fa)
					}
				}
			}
		}
	}
	return out
}

// guardedFields: struct fields guarded by a mutex of the same object.
type guardedFieldSpec struct {
	T, F, mu string
	// teardown: methods allowed to touch the field without the lock (end of life)
	teardown map[string]string
}

func (c *Check) guardedFields() {
	for _, g := range []guardedFieldSpec{
		{"binutils.Binutils", "rep", "mu", nil},
		{"binutils.addr2Liner", "rw", "mu", map[string]string{"(*binutils.fileAddr2Line).Close": "closes the pipe when the object file is released; no symbolization call can follow"}},
		{"binutils.llvmSymbolizer", "rw", "Mutex", map[string]string{"(*binutils.fileAddr2Line).Close": "closes the pipe when the object file is released; no symbolization call can follow"}},
	} {
		c.guardedField(g)
	}
}

// guardedField: struct field g.T.g.F is only accessed with the mutex g.mu of the same object held.
func (c *Check) guardedField(g guardedFieldSpec) {
	p := c.P
	for once := true; once; once = false {
		accs := fieldAccesses(p, g.T, g.F)
		if len(accs) == 0 {
			c.undecided("C20-R1", "guard:"+g.T+"."+g.F, "", "no access of "+g.T+"."+g.F+" found")
			continue
		}
		// group by function
		byFn := map[*ssa.Function][]*ssa.FieldAddr{}
		var order []*ssa.Function
		for _, a := range accs {
			if byFn[a.Parent()] == nil {
				order = append(order, a.Parent())
			}
			byFn[a.Parent()] = append(byFn[a.Parent()], a)
		}
		for _, f := range order {
			key := fmt.Sprintf("guard:%s.%s@%s", g.T, g.F, fnName(f))
			pos := p.relFile(byFn[f][0].Pos())
			// composite literal initialisation of a fresh object
			allFresh := true
			for _, a := range byFn[f] {
				if rk, _ := rootOf(a.X, 0, map[ssa.Value]bool{}); rk != rFresh {
					allFresh = false
				}
			}
			if allFresh {
				c.ok("C20-R1", key, pos, g.T+"."+g.F+" initialised in "+fnName(f), "the object is freshly allocated and not yet shared")
				continue
			}
			if f.Name() == "init" && f.Parent() == nil && f.Signature.Recv() == nil {
				c.ok("C20-R1", key, pos, g.T+"."+g.F+" initialised by the package initialiser", "runs before any other goroutine of the program exists")
				continue
			}
			if why, ok := g.teardown[fnName(f)]; ok {
				c.ok("C20-R1", key, pos, g.T+"."+g.F+" touched by "+fnName(f), "teardown: "+why)
				continue
			}
			unheld := ""
			for _, a := range byFn[f] {
				base, ok := mutexIdentity(a.X)
				if !ok || !heldAt(f, a)[base+"."+g.mu] {
					unheld = describeValue(a.X)
				}
			}
			if unheld == "" {
				c.ok("C20-R1", key, pos, g.T+"."+g.F+" accessed in "+fnName(f), "the object's "+g.mu+" is held at every access in this function")
				continue
			}
			// requires-lock helper: every static caller holds the lock of the same receiver at the call
			if why := callersHold(p, f, g.mu); why == "" {
				c.ok("C20-R1", key, pos, g.T+"."+g.F+" accessed in helper "+fnName(f), "every call of this helper is made with the receiver's "+g.mu+" held")
			} else {
				c.bad("C20-R1", key, pos, g.T+"."+g.F+" is accessed in "+fnName(f)+" without its "+g.mu+" held, and "+why)
			}
		}
	}
}

// callersHold: every static call of f passes a receiver whose mutex mu is held at the call.
func callersHold(p *Program, f *ssa.Function, mu string) string {
	return callersHoldDepth(p, f, mu, 0)
}

// callersHoldDepth: every call of f is made with the receiver's mutex held: at the call, or
// because the caller is itself a helper all of whose callers hold it (a requires-lock chain),
// or through a method value (`read := d.readFrames; read()`) created and called under the lock.
func callersHoldDepth(p *Program, f *ssa.Function, mu string, depth int) string {
	if depth > 3 {
		return "the chain of lock-requiring helpers is too long to follow"
	}
	n := 0
	for g := range p.AllFns {
		if !fnInModule(g) || g.Blocks == nil {
			continue
		}
		for _, b := range g.Blocks {
			for _, ins := range b.Instrs {
				call, ok := ins.(ssa.CallInstruction)
				if !ok || call.Common().StaticCallee() != f {
					continue
				}
				n++
				if len(call.Common().Args) == 0 {
					return "a caller passes no receiver"
				}
				recv := call.Common().Args[0]
				if strings.HasSuffix(g.Name(), "$bound") && g.Synthetic != "" {
					// method value: the wrapper is created and invoked somewhere else
					if why := boundValueUsedUnderLock(p, g, mu, depth); why != "" {
						return why
					}
					continue
				}
				base, ok := mutexIdentity(recv)
				if ok && heldAt(g, ins)[base+"."+mu] {
					continue
				}
				// the caller works on its own receiver and is itself only called under the lock
				if _, isParam := recv.(*ssa.Parameter); isParam && len(g.Params) > 0 && recv == ssa.Value(g.Params[0]) {
					if why := callersHoldDepth(p, g, mu, depth+1); why == "" {
						continue
					}
				}
				return "caller " + fnName(g) + " does not hold it at the call"
			}
		}
	}
	if n == 0 {
		return "it has no static caller to inherit the lock from"
	}
	return ""
}

// boundValueUsedUnderLock: every method value made from the $bound wrapper w is only called,
// in the function that makes it, at points where the bound receiver's mutex is held (or that
// function is a lock-requiring helper itself).
func boundValueUsedUnderLock(p *Program, w *ssa.Function, mu string, depth int) string {
	n := 0
	for g := range p.AllFns {
		if !fnInModule(g) || g.Blocks == nil {
			continue
		}
		for _, b := range g.Blocks {
			for _, ins := range b.Instrs {
				mc, ok := ins.(*ssa.MakeClosure)
				if !ok || mc.Fn != ssa.Value(w) || len(mc.Bindings) == 0 {
					continue
				}
				n++
				recv := mc.Bindings[0]
				// every use of the value: a call, possibly through phis
				var uses []ssa.Instruction
				seen := map[ssa.Value]bool{}
				var collect func(v ssa.Value) bool
				collect = func(v ssa.Value) bool {
					if seen[v] || v.Referrers() == nil {
						return true
					}
					seen[v] = true
					for _, r := range *v.Referrers() {
						switch x := r.(type) {
						case *ssa.Phi:
							if !collect(x) {
								return false
							}
						case *ssa.DebugRef:
						case ssa.CallInstruction:
							if x.Common().Value != v {
								return false // passed on as an argument
							}
							uses = append(uses, x)
						default:
							return false
						}
					}
					return true
				}
				if !collect(mc) {
					return "a method value of " + strings.TrimSuffix(w.Name(), "$bound") + " escapes from " + fnName(g)
				}
				for _, u := range uses {
					base, ok := mutexIdentity(recv)
					if ok && heldAt(g, u)[base+"."+mu] {
						continue
					}
					if _, isParam := recv.(*ssa.Parameter); isParam && len(g.Params) > 0 && recv == ssa.Value(g.Params[0]) {
						if why := callersHoldDepth(p, g, mu, depth+1); why == "" {
							continue
						}
					}
					return "the method value is called in " + fnName(g) + " without the lock"
				}
			}
		}
	}
	if n == 0 {
		return "a method-value wrapper has no creation site"
	}
	return ""
}

// scratchFields: the encode scratch fields of profile types.
func (c *Check) scratchFields() {
	p := c.P
	m := newModAnalyzer(p)
	sers := c.serializers("C20-R1")
	if len(sers) == 0 {
		return
	}
	isSer := map[*ssa.Function]bool{}
	for _, ser := range sers {
		isSer[ser] = true
	}
	isScratch := func(T, F string) bool {
		if !strings.HasPrefix(T, "profile.") || F == "" {
			return false
		}
		if F == "stringTable" || F == "encodeMu" {
			return F == "stringTable"
		}
		return F[0] >= 'a' && F[0] <= 'z' && (strings.HasSuffix(F, "X") || strings.HasSuffix(F, "IDX"))
	}
	// writers of scratch fields
	writers := map[*ssa.Function][]string{}
	for f := range p.AllFns {
		if !fnInModule(f) || f.Blocks == nil {
			continue
		}
		for _, e := range m.direct(f) {
			if isScratch(e.T, e.F) && e.Root != rFresh {
				writers[f] = append(writers[f], e.T+"."+e.F)
			}
		}
	}
	if len(writers) == 0 {
		c.undecided("C20-R1", "scratch:none", "", "no writer of profile scratch fields found")
		return
	}
	// the locked region of the serializer(s)
	locked := map[*ssa.Function]bool{}
	for _, serialize := range sers {
		for _, b := range serialize.Blocks {
			for _, ins := range b.Instrs {
				if call, ok := ins.(*ssa.Call); ok && call.Call.StaticCallee() != nil && fnInModule(call.Call.StaticCallee()) {
					held := heldAt(serialize, call)
					okHeld := false
					for id := range held {
						if strings.HasSuffix(id, ".encodeMu") {
							okHeld = true
						}
					}
					key := "scratch:serialize→" + call.Call.StaticCallee().Name()
					if okHeld {
						locked[call.Call.StaticCallee()] = true
						c.ok("C20-R1", key, p.relFile(call.Pos()), call.Call.StaticCallee().Name()+" runs inside the serializer's critical section", "p.encodeMu is held at the call")
					} else {
						c.bad("C20-R1", key, p.relFile(call.Pos()), fnName(serialize)+" calls "+call.Call.StaticCallee().Name()+" without holding p.encodeMu")
					}
				}
			}
		}
	}
	// reverse call graph over module functions
	callers := map[*ssa.Function][]*ssa.Function{}
	for f := range p.AllFns {
		if !fnInModule(f) || f.Blocks == nil {
			continue
		}
		for _, callee := range p.MG().Callees(f) {
			callers[callee] = append(callers[callee], f)
		}
	}
	for f := range p.AllFns {
		if !fnInModule(f) || f.Blocks == nil {
			continue
		}
		// a function literal nobody is seen to call: attribute it to its creator
		for _, an := range f.AnonFuncs {
			if len(callers[an]) == 0 {
				callers[an] = append(callers[an], f)
			}
		}
	}
	// decode roots: they build a fresh Profile
	freshRoots := map[string]bool{"ParseUncompressed": true, "ParseData": true, "Parse": true, "Copy": true, "parseUncompressed": true}
	var ws []*ssa.Function
	for f := range writers {
		ws = append(ws, f)
	}
	sortFns(ws)
	for _, w := range ws {
		key := "scratch:writer:" + fnName(w)
		// walk up: every chain must hit serialize's locked callees or a fresh root before leaving package profile
		bad := ""
		seen := map[*ssa.Function]bool{}
		var up func(f *ssa.Function, depth int)
		up = func(f *ssa.Function, depth int) {
			if seen[f] || bad != "" {
				return
			}
			seen[f] = true
			if locked[f] {
				return
			}
			if fnPkgPath(f) == modPath+"/profile" && freshRoots[f.Name()] && f.Parent() == nil {
				return
			}
			cs := callers[f]
			if len(cs) == 0 {
				bad = "reachable from " + fnName(f) + ", which is neither inside serialize's critical section nor a decode entry point"
				return
			}
			for _, cf := range cs {
				if isSer[cf] {
					if !locked[f] {
						bad = "called from serialize outside the critical section"
					}
					continue
				}
				up(cf, depth+1)
			}
		}
		up(w, 0)
		fields := dedup(writers[w])
		sort.Strings(fields)
		if bad == "" {
			c.ok("C20-R1", key, p.relFile(w.Pos()), fnName(w)+" writes encode scratch fields ("+truncate(strings.Join(fields, ","), 80)+")", "every call chain reaching it starts inside serialize's critical section (encodeMu held) or at a decode entry point that works on a freshly allocated profile")
		} else {
			c.bad("C20-R1", key, p.relFile(w.Pos()), fnName(w)+" writes encode scratch fields and is "+bad)
		}
	}
}

// onceFields: fields initialised under a sync.Once.
func (c *Check) onceFields() {
	p := c.P
	m := newModAnalyzer(p)
	type spec struct {
		T      string
		fields []string
		// functions allowed to write, with reason; closures passed to the once are found by shape
		writers map[string]string
	}
	for _, s := range []spec{
		{"binutils.file", []string{"base", "baseErr", "isData"}, map[string]string{"(*binutils.file).computeBase": "called only from the baseOnce.Do closures"}},
		{"binutils.fileAddr2Line", []string{"addr2liner", "llvmSymbolizer"}, map[string]string{"(*binutils.fileAddr2Line).init": "passed to once.Do", "(*binutils.fileAddr2Line).Close": "teardown after last use"}},
		{"transport.transport", []string{"certs", "caCertPool", "initErr"}, nil},
	} {
		for _, F := range s.fields {
			for f := range p.AllFns {
				if !fnInModule(f) || f.Blocks == nil {
					continue
				}
				for _, e := range m.direct(f) {
					if e.T != s.T || e.F != F || e.Root == rFresh {
						continue
					}
					key := fmt.Sprintf("once:%s.%s@%s", s.T, F, fnName(f))
					if why, ok := s.writers[fnName(f)]; ok {
						c.ok("C20-R1", key, p.relFile(e.Pos), s.T+"."+F+" written in "+fnName(f), why)
						continue
					}
					if isOnceClosure(p, f) {
						c.ok("C20-R1", key, p.relFile(e.Pos), s.T+"."+F+" written in "+fnName(f), "the function literal is only used as the argument of a sync.Once.Do")
						continue
					}
					if calledOnlyFromOnce(p, f, 0) {
						c.ok("C20-R1", key, p.relFile(e.Pos), s.T+"."+F+" written in "+fnName(f), "every call of this function is made from a function literal handed to sync.Once.Do")
						continue
					}
					c.bad("C20-R1", key, p.relFile(e.Pos), s.T+"."+F+" is written in "+fnName(f)+", outside its sync.Once")
				}
			}
		}
	}
	// computeBase is called only from Do closures
	if cb := p.Func("internal/binutils", "(*file).computeBase"); cb != nil {
		bad := ""
		if !calledOnlyFromOnce(p, cb, 0) {
			bad = "a function that is not a sync.Once.Do argument"
		}
		if bad == "" {
			c.ok("C20-R1", "once:computeBase-callers", p.relFile(cb.Pos()), "computeBase is only called from baseOnce.Do closures", "all static call sites are in function literals handed to sync.Once.Do")
		} else {
			c.bad("C20-R1", "once:computeBase-callers", p.relFile(cb.Pos()), "computeBase is called from "+bad+", outside baseOnce.Do")
		}
	}
	// reads of file.base / baseErr are preceded by baseOnce.Do in the same function
	for _, F := range []string{"base", "baseErr"} {
		for _, fa := range fieldAccesses(p, "binutils.file", F) {
			f := fa.Parent()
			if rk, _ := rootOf(fa.X, 0, map[ssa.Value]bool{}); rk == rFresh {
				continue
			}
			if f.Name() == "computeBase" || isOnceClosure(p, f) {
				continue
			}
			key := fmt.Sprintf("once-read:file.%s@%s", F, fnName(f))
			ok := dominatedByOnce(f, fa)
			if ok {
				c.ok("C20-R1", key, p.relFile(fa.Pos()), "file."+F+" read in "+fnName(f), "a baseOnce.Do call dominates the read")
			} else if onceAtCallers(p, f, 0) {
				c.ok("C20-R1", key, p.relFile(fa.Pos()), "file."+F+" read in helper "+fnName(f), "every call of this helper is dominated by a baseOnce.Do call")
			} else if fnName(f) == "(*binutils.fileAddr2Line).init" {
				c.ok("C20-R1", key, p.relFile(fa.Pos()), "file."+F+" read in "+fnName(f), "init runs under once.Do in SourceLine, after baseOnce.Do in the same call")
			} else {
				c.bad("C20-R1", key, p.relFile(fa.Pos()), "file."+F+" is read in "+fnName(f)+" without a preceding baseOnce.Do")
			}
		}
	}
	// htmlTemplates global
	if gv := p.SSAPkg("internal/driver").Var("htmlTemplates"); gv != nil {
		// var htmlTemplates = sync.OnceValue(build): the variable holds the once-guarded
		// getter itself; it is assigned during package initialisation only and calling it is
		// the synchronised access
		_, isGetter := gv.Type().(*types.Pointer).Elem().Underlying().(*types.Signature)
		for _, ins := range globalRefs(p, gv) {
			f := ins.Parent()
			key := "once:htmlTemplates@" + fnName(f)
			_, isStore := ins.(*ssa.Store)
			if isGetter {
				fromOnceValue := false
				if st, ok := ins.(*ssa.Store); ok {
					if call, ok := st.Val.(*ssa.Call); ok && call.Call.StaticCallee() != nil && strings.HasPrefix(call.Call.StaticCallee().String(), "sync.OnceValue") {
						fromOnceValue = true
					}
				}
				switch {
				case isStore && f.Name() == "init" && fromOnceValue:
					c.ok("C20-R1", key, p.relFile(ins.Pos()), "htmlTemplates is bound to a sync.OnceValue getter during package initialisation", "the only store is in init and its value is the result of sync.OnceValue")
				case isStore:
					c.bad("C20-R1", key, p.relFile(ins.Pos()), "the once-guarded getter htmlTemplates is re-assigned in "+fnName(f))
				default:
					c.ok("C20-R1", key, p.relFile(ins.Pos()), "htmlTemplates read in "+fnName(f), "the variable is a sync.OnceValue getter: calling it is the synchronised access")
				}
				continue
			}
			switch {
			case isOnceClosure(p, f):
				c.ok("C20-R1", key, p.relFile(ins.Pos()), "htmlTemplates accessed in "+fnName(f), "inside the htmlTemplateInit.Do closure")
			case !isStore && dominatedByOnce(f, ins):
				c.ok("C20-R1", key, p.relFile(ins.Pos()), "htmlTemplates read in "+fnName(f), "after htmlTemplateInit.Do in the same function")
			default:
				c.bad("C20-R1", key, p.relFile(ins.Pos()), "htmlTemplates is accessed in "+fnName(f)+" outside its sync.Once")
			}
		}
	}
}

func dominatedByOnce(f *ssa.Function, ins ssa.Instruction) bool {
	for _, b := range f.Blocks {
		for _, i2 := range b.Instrs {
			call, ok := i2.(*ssa.Call)
			if !ok || call.Call.StaticCallee() == nil || !instrDominates(call, ins) {
				continue
			}
			if call.Call.StaticCallee().String() == "(*sync.Once).Do" || onceEnsurer(call.Call.StaticCallee()) {
				return true
			}
		}
	}
	return false
}

// onceEnsurer: a module helper (possibly reached through a promoted-method wrapper) that
// runs a sync.Once.Do on every path before it returns, e.g.
// func (f *file) ensureBase(addr) error { f.baseOnce.Do(…); return f.baseErr }.
func onceEnsurer(h *ssa.Function) bool {
	for i := 0; i < 3 && h != nil; i++ {
		if !fnInModule(h) || len(h.Blocks) == 0 {
			return false
		}
		var dos []*ssa.Call
		var fwd *ssa.Function
		for _, b := range h.Blocks {
			for _, ins := range b.Instrs {
				if call, ok := ins.(*ssa.Call); ok && call.Call.StaticCallee() != nil {
					if call.Call.StaticCallee().String() == "(*sync.Once).Do" {
						dos = append(dos, call)
					} else if h.Synthetic != "" {
						fwd = call.Call.StaticCallee() // wrapper forwarding to the declared method
					}
				}
			}
		}
		if len(dos) > 0 {
			for _, b := range h.Blocks {
				ret, ok := b.Instrs[len(b.Instrs)-1].(*ssa.Return)
				if !ok {
					continue
				}
				covered := false
				for _, d := range dos {
					if instrDominates(d, ret) {
						covered = true
					}
				}
				if !covered {
					return false
				}
			}
			return true
		}
		h = fwd
	}
	return false
}

// returnsFieldOfReceiver: every return of helper h hands back the field T.F of its receiver
// (or first parameter); following promoted-method wrappers.
func returnsFieldOfReceiver(h *ssa.Function, T, F string) bool {
	for i := 0; i < 3 && h != nil; i++ {
		if !fnInModule(h) || len(h.Blocks) == 0 {
			return false
		}
		if h.Synthetic != "" {
			var fwd *ssa.Function
			for _, b := range h.Blocks {
				for _, ins := range b.Instrs {
					if call, ok := ins.(*ssa.Call); ok && call.Call.StaticCallee() != nil {
						fwd = call.Call.StaticCallee()
					}
				}
			}
			h = fwd
			continue
		}
		n := 0
		// returns that can only be taken when the field is nil may hand back a literal nil
		nonNil := reachUnder(h, func(cond ssa.Value) int {
			if cmp, ok := cond.(*ssa.BinOp); ok && (isFieldLoad(cmp.X, T, F) || isFieldLoad(cmp.Y, T, F)) {
				switch cmp.Op {
				case token.NEQ:
					return 1
				case token.EQL:
					return -1
				}
			}
			return 0
		})
		for _, b := range h.Blocks {
			ret, ok := b.Instrs[len(b.Instrs)-1].(*ssa.Return)
			if !ok {
				continue
			}
			if len(ret.Results) == 0 {
				return false
			}
			// the field is the only result, or the last one (…, err)
			last := ret.Results[len(ret.Results)-1]
			if isFieldLoad(last, T, F) {
				n++
				continue
			}
			if k, isConst := last.(*ssa.Const); isConst && k.IsNil() && !nonNil[b] {
				continue
			}
			return false
		}
		return n > 0
	}
	return false
}

// calledOnlyFromOnce: every static caller of f is a Once.Do closure, or a compiler-made
// wrapper (promoted method) whose own callers satisfy the same condition.
func calledOnlyFromOnce(p *Program, f *ssa.Function, depth int) bool {
	if depth > 4 {
		return false
	}
	n := 0
	for g := range p.AllFns {
		if !fnInModule(g) || g.Blocks == nil {
			continue
		}
		for _, b := range g.Blocks {
			for _, ins := range b.Instrs {
				call, ok := ins.(ssa.CallInstruction)
				if !ok || call.Common().StaticCallee() != f {
					continue
				}
				if g.Synthetic != "" {
					if hasCallers(p, g) && !calledOnlyFromOnce(p, g, depth+1) {
						return false
					}
					continue
				}
				n++
				if !isOnceClosure(p, g) {
					return false
				}
			}
		}
	}
	return n > 0
}

func hasCallers(p *Program, f *ssa.Function) bool {
	for g := range p.AllFns {
		if !fnInModule(g) || g.Blocks == nil {
			continue
		}
		for _, b := range g.Blocks {
			for _, ins := range b.Instrs {
				if call, ok := ins.(ssa.CallInstruction); ok && call.Common().StaticCallee() == f {
					return true
				}
			}
		}
	}
	return false
}

// isOnceClosure: f is a function literal (or method value) whose only use is as the
// argument of (*sync.Once).Do.
func isOnceClosure(p *Program, f *ssa.Function) bool {
	par := f.Parent()
	if par == nil {
		// a named function or method whose value (f, or x.f) is only ever handed to Once.Do
		sites, only := onceDoSites(p, f)
		return len(sites) > 0 && only
	}
	used, onlyOnce := false, true
	for _, b := range par.Blocks {
		for _, ins := range b.Instrs {
			var ops []*ssa.Value
			for _, op := range ins.Operands(ops) {
				if op == nil || *op == nil {
					continue
				}
				var fn *ssa.Function
				switch v := (*op).(type) {
				case *ssa.MakeClosure:
					fn, _ = v.Fn.(*ssa.Function)
					if ins != ssa.Instruction(v) {
						// use of the closure value
					}
				case *ssa.Function:
					fn = v
				}
				if fn != f {
					continue
				}
				if _, isMk := ins.(*ssa.MakeClosure); isMk {
					continue
				}
				used = true
				call, ok := ins.(*ssa.Call)
				if !ok || call.Call.StaticCallee() == nil || call.Call.StaticCallee().String() != "(*sync.Once).Do" {
					onlyOnce = false
				}
			}
		}
	}
	return used && onlyOnce
}

// globalWriters (R2): inventory of package-level variables written outside init.
func (c *Check) globalWriters() {
	p := c.P
	m := newModAnalyzer(p)
	table := map[string]string{
		"driver.currentCfg":      "guarded by currentMu (R1)",
		"driver.tempFiles":       "guarded by tempFilesMu (R1)",
		"driver.htmlTemplates":   "written only under htmlTemplateInit (R1)",
		"driver.interactiveMode": "start-up flag: set by interactive/serveWebInterface before any request handler or goroutine exists, only read afterwards",
		"driver.configHelp":      "help text map: extended once by interactive() before the command loop",
		"driver.pprofShortcuts":  "shortcut map: extended once by profileShortcuts, whose only caller is interactive() before the command loop",
		"driver.pprofCommands":   "command registry: AddCommand is the embedders' set-up API and is not reachable from PProf, the interactive loop or any web handler",
	}
	verify := map[string]func() string{
		"driver.pprofShortcuts": func() string { return onlyCalledFrom(c, "internal/driver", "profileShortcuts", "interactive") },
		"driver.pprofCommands": func() string {
			ac := p.Func("internal/driver", "AddCommand")
			root := p.Func("internal/driver", "PProf")
			if ac == nil || root == nil {
				return "anchors not found"
			}
			parent, _ := p.MG().Reach([]*ssa.Function{root}, nil)
			if _, ok := parent[ac]; ok {
				return "AddCommand is reachable from PProf: " + callPath(parent, ac)
			}
			return ""
		},
	}
	seen := map[string]bool{}
	var fns []*ssa.Function
	for f := range p.AllFns {
		if fnInModule(f) && f.Blocks != nil {
			fns = append(fns, f)
		}
	}
	sortFns(fns)
	for _, f := range fns {
		if f.Name() == "init" || strings.HasPrefix(f.Name(), "init#") || f.Synthetic != "" {
			continue
		}
		if onlyRunsDuringInit(p, f, 0) {
			continue // a piece of a package initialiser: runs before any other goroutine exists
		}
		if strings.Contains(fnPkgPath(f), "/proftest") || strings.Contains(fnPkgPath(f), "/third_party") {
			continue
		}
		for _, b := range f.Blocks {
			for _, ins := range b.Instrs {
				var g *ssa.Global
				switch x := ins.(type) {
				case *ssa.Store:
					g = globalOf(x.Addr)
				case *ssa.MapUpdate:
					g = globalOf(x.Map)
				}
				if g == nil || !inModule(g.Pkg.Pkg.Path()) {
					continue
				}
				name := g.Pkg.Pkg.Name() + "." + g.Name()
				key := "global:" + name + "@" + fnName(f)
				if seen[key] {
					continue
				}
				seen[key] = true
				if v, ok := verify[name]; ok {
					if broken := v(); broken != "" {
						c.bad("C20-R2", key, p.relFile(ins.Pos()), "package-level variable "+name+" written in "+fnName(f)+": the reviewed reason no longer holds ("+broken+")")
						continue
					}
				}
				if why, ok := table[name]; ok {
					c.ok("C20-R2", key, p.relFile(ins.Pos()), "package-level variable "+name+" written in "+fnName(f), why)
				} else {
					c.bad("C20-R2", key, p.relFile(ins.Pos()), "package-level variable "+name+" is written in "+fnName(f)+" but has no guard in the checker's table: shared mutable state without a lock")
				}
			}
		}
	}
	_ = m
	c.Floor("C20-R2", 3)
}

func globalOf(v ssa.Value) *ssa.Global {
	for {
		switch x := v.(type) {
		case *ssa.Global:
			return x
		case *ssa.FieldAddr:
			v = x.X
		case *ssa.IndexAddr:
			v = x.X
		case *ssa.UnOp:
			if x.Op != token.MUL {
				return nil
			}
			v = x.X
		default:
			return nil
		}
	}
}

// tempFileCreation (R3)
func (c *Check) tempFileCreation() {
	p := c.P
	n := 0
	var fns []*ssa.Function
	for f := range p.AllFns {
		if fnInModule(f) && f.Blocks != nil {
			fns = append(fns, f)
		}
	}
	sortFns(fns)
	for _, f := range fns {
		if strings.Contains(p.Fset.Position(f.Pos()).Filename, "/testdata/") {
			continue
		}
		for _, b := range f.Blocks {
			for _, ins := range b.Instrs {
				call, ok := ins.(ssa.CallInstruction)
				if !ok || call.Common().StaticCallee() == nil {
					continue
				}
				name := call.Common().StaticCallee().String()
				key := "create:" + fnName(f) + ":" + name
				switch name {
				case "os.OpenFile":
					n++
					flag, ok := call.Common().Args[1].(*ssa.Const)
					if !ok || flag.Value == nil {
						c.undecided("C20-R3", key, p.relFile(call.Pos()), "os.OpenFile flags are not constant in "+fnName(f))
						continue
					}
					fl, _ := constant.Int64Val(flag.Value)
					const oCreate, oExcl = 0x40, 0x80 // linux values of os.O_CREATE, os.O_EXCL
					if fl&oCreate != 0 && fl&oExcl == 0 {
						c.bad("C20-R3", key, p.relFile(call.Pos()), "file created with O_CREATE but without O_EXCL in "+fnName(f)+": concurrent creators can pick the same name and overwrite each other")
					} else {
						c.ok("C20-R3", key, p.relFile(call.Pos()), "os.OpenFile in "+fnName(f), fmt.Sprintf("flags %#x: creation is exclusive (O_CREATE|O_EXCL) or the file is not created", fl))
					}
				case "os.Create":
					n++
					if fnName(f) == "(driver.oswriter).Open" {
						c.ok("C20-R3", key, p.relFile(call.Pos()), "os.Create in "+fnName(f), "the user-named -output file; overwriting it is the documented behaviour, not an automatically chosen name")
					} else {
						c.bad("C20-R3", key, p.relFile(call.Pos()), "os.Create in "+fnName(f)+" truncates an existing file; automatically named files must be created exclusively")
					}
				case "os.CreateTemp", "io/ioutil.TempFile":
					n++
					c.ok("C20-R3", key, p.relFile(call.Pos()), name+" in "+fnName(f), "creates a uniquely named file with O_EXCL")
				}
			}
		}
	}
	if n < 2 {
		c.undecided("C20-R3", "create:sites", "", "fewer file-creation sites than expected")
	}
}

// binrepImmutable (R4)
func (c *Check) binrepImmutable() {
	p := c.P
	m := newModAnalyzer(p)
	paramWriters := map[*ssa.Function]bool{}
	forAllPkgFuncs(p, "internal/binutils", func(f *ssa.Function) {
		for _, e := range m.direct(f) {
			if e.T != "binutils.binrep" {
				continue
			}
			key := fmt.Sprintf("binrep:%s.%s@%s", e.T, e.F, fnName(f))
			switch e.Root {
			case rFresh:
				c.ok("C20-R4", key, p.relFile(e.Pos), "binrep."+e.F+" written in "+fnName(f), "on an object allocated in this function, before it is published")
			case rParam:
				paramWriters[f] = true
				c.ok("C20-R4", key, p.relFile(e.Pos), "binrep."+e.F+" written through a parameter of "+fnName(f), "callers must pass a fresh copy (checked below)")
			default:
				c.bad("C20-R4", key, p.relFile(e.Pos), "binrep."+e.F+" is written in "+fnName(f)+" on an object that may already be published ("+e.Root.String()+")")
			}
		}
	})
	// functions that forward their own binrep parameter to a writer are writers too
	for changed := true; changed; {
		changed = false
		forAllPkgFuncs(p, "internal/binutils", func(g *ssa.Function) {
			if paramWriters[g] {
				return
			}
			for _, b := range g.Blocks {
				for _, ins := range b.Instrs {
					call, ok := ins.(ssa.CallInstruction)
					if !ok || call.Common().StaticCallee() == nil || !paramWriters[call.Common().StaticCallee()] {
						continue
					}
					for _, a := range call.Common().Args {
						if structName(a.Type()) == "binutils.binrep" {
							if rk, _ := rootOf(a, 0, map[ssa.Value]bool{}); rk == rParam {
								paramWriters[g] = true
								changed = true
							}
						}
					}
				}
			}
		})
	}
	// call sites of the parameter writers: the binrep argument is a fresh allocation
	var pw []*ssa.Function
	for f := range paramWriters {
		pw = append(pw, f)
	}
	sortFns(pw)
	for _, w := range pw {
		n := 0
		forAllPkgFuncs(p, "internal/binutils", func(g *ssa.Function) {
			for _, b := range g.Blocks {
				for _, ins := range b.Instrs {
					call, ok := ins.(ssa.CallInstruction)
					if !ok {
						continue
					}
					cc := call.Common()
					match := cc.StaticCallee() == w
					if !match && cc.StaticCallee() == nil && !cc.IsInvoke() {
						for _, d := range dynCallees(p.CG(), g, call) {
							if d == w {
								match = true
							}
						}
					}
					if !match {
						continue
					}
					for _, a := range cc.Args {
						if structName(a.Type()) != "binutils.binrep" {
							continue
						}
						n++
						key := fmt.Sprintf("binrep:arg:%s→%s", fnName(g), fnName(w))
						rk, _ := rootOf(a, 0, map[ssa.Value]bool{})
						if rk == rFresh {
							c.ok("C20-R4", key, p.relFile(call.Pos()), fnName(w)+" called from "+fnName(g), "the binrep argument is allocated in the caller (copy-on-write)")
						} else if rk == rParam && paramWriters[g] {
							c.ok("C20-R4", key, p.relFile(call.Pos()), fnName(w)+" called from "+fnName(g), "forwards its own (fresh) binrep parameter")
						} else {
							c.bad("C20-R4", key, p.relFile(call.Pos()), fnName(g)+" passes a "+rk.String()+"-rooted binrep to "+fnName(w)+", which writes it: a published representation would be mutated in place")
						}
					}
				}
			}
		})
		if n == 0 {
			c.undecided("C20-R4", "binrep:callers:"+fnName(w), p.relFile(w.Pos()), "no call site found for "+fnName(w))
		}
	}
	c.Floor("C20-R4", 5)
}

// nestedLocks: no function acquires a second lock while holding one (coarse deadlock guard).
func (c *Check) nestedLocks() {
	p := c.P
	n := 0
	var fns []*ssa.Function
	for f := range p.AllFns {
		if fnInModule(f) && f.Blocks != nil {
			fns = append(fns, f)
		}
	}
	sortFns(fns)
	for _, f := range fns {
		lcs := lockCalls(f)
		if len(lcs) == 0 {
			continue
		}
		n++
		ids := map[string]bool{}
		for _, lc := range lcs {
			if lc.lock {
				ids[lc.id] = true
			}
		}
		for _, lk := range lockLeaks(f) {
			c.bad("C20-R1", "leak:"+fnName(f)+":"+lk.id, p.relFile(lk.ins.Pos()), fnName(f)+" can return with "+lk.id+" still locked (a path from Lock to return passes no Unlock): the next user of that mutex blocks forever")
		}
		key := "nest:" + fnName(f)
		if len(ids) > 1 {
			c.bad("C20-R1", key, p.relFile(f.Pos()), fnName(f)+" acquires more than one mutex ("+keys(ids)+"): lock order must be reviewed")
		} else {
			o := c.ok("C20-R1", key, p.relFile(f.Pos()), fnName(f)+" acquires a single mutex", keys(ids))
			o.Trivial = true
		}
	}
	if n < 6 {
		c.undecided("C20-R1", "nest:count", "", fmt.Sprintf("only %d functions take a lock; expected at least the config, temp-file, settings, binutils and pipe guards", n))
	}
	_ = types.Typ
}

// onceAtCallers: f is a helper (never used as a value) every call of which is dominated by a
// sync.Once.Do (or a helper that runs one) in its caller, or in the caller's callers.
func onceAtCallers(p *Program, f *ssa.Function, depth int) bool {
	if depth > 2 {
		return false
	}
	calls, asValue := directCallSites(p, f)
	if asValue || len(calls) == 0 {
		return false
	}
	for _, call := range calls {
		g := call.Parent()
		if dominatedByOnce(g, call.(ssa.Instruction)) {
			continue
		}
		if !onceAtCallers(p, g, depth+1) {
			return false
		}
	}
	return true
}

// onlyRunsDuringInit: f (or the function literal's enclosing function) is only ever called,
// never used as a value, from package initialisers or from functions of which the same holds.
func onlyRunsDuringInit(p *Program, f *ssa.Function, depth int) bool {
	if f.Name() == "init" || strings.HasPrefix(f.Name(), "init#") {
		return true
	}
	if depth > 3 {
		return false
	}
	if par := f.Parent(); par != nil {
		// a closure: it runs during init when it is only called inside its init-time parent
		if !onlyRunsDuringInit(p, par, depth+1) {
			return false
		}
		for _, b := range par.Blocks {
			for _, ins := range b.Instrs {
				mc, ok := ins.(*ssa.MakeClosure)
				if !ok || mc.Fn != ssa.Value(f) || mc.Referrers() == nil {
					continue
				}
				for _, r := range *mc.Referrers() {
					switch x := r.(type) {
					case *ssa.DebugRef:
					case ssa.CallInstruction:
						if x.Common().Value != ssa.Value(mc) {
							return false
						}
						if _, isGo := r.(*ssa.Go); isGo {
							return false
						}
					case *ssa.Store:
						// kept in a local variable and called from there
						if _, isAlloc := x.Addr.(*ssa.Alloc); !isAlloc {
							return false
						}
					default:
						return false
					}
				}
			}
		}
		return true
	}
	calls, asValue := directCallSites(p, f)
	if asValue || len(calls) == 0 {
		return false
	}
	for _, call := range calls {
		if _, isGo := call.(*ssa.Go); isGo {
			return false
		}
		if !onlyRunsDuringInit(p, call.Parent(), depth+1) {
			return false
		}
	}
	return true
}

// onceDoSites: the calls of (*sync.Once).Do in the module whose argument is f - as a function
// literal, or as a method value (through the compiler's bound-method wrapper).  only reports
// whether f is used nowhere else (not called directly, not stored, not passed elsewhere).
func onceDoSites(p *Program, f *ssa.Function) (sites []*ssa.Call, only bool) {
	only = true
	isWrapperOf := func(w *ssa.Function) bool {
		if w == nil || w.Synthetic == "" {
			return false
		}
		for _, b := range w.Blocks {
			for _, ins := range b.Instrs {
				if call, ok := ins.(ssa.CallInstruction); ok && call.Common().StaticCallee() == f {
					return true
				}
			}
		}
		return false
	}
	for g := range p.AllFns {
		if !fnInModule(g) || g.Blocks == nil {
			continue
		}
		if isWrapperOf(g) {
			continue // the wrapper's own call of f
		}
		for _, b := range g.Blocks {
			for _, ins := range b.Instrs {
				var ops []*ssa.Value
				for _, op := range ins.Operands(ops) {
					if op == nil || *op == nil {
						continue
					}
					var fn *ssa.Function
					switch v := (*op).(type) {
					case *ssa.MakeClosure:
						fn, _ = v.Fn.(*ssa.Function)
					case *ssa.Function:
						fn = v
					}
					if fn == nil || !(fn == f || isWrapperOf(fn)) {
						continue
					}
					if _, isMk := ins.(*ssa.MakeClosure); isMk {
						continue // the creation of the function value; its uses are seen separately
					}
					call, ok := ins.(*ssa.Call)
					if ok && call.Call.StaticCallee() != nil && call.Call.StaticCallee().String() == "(*sync.Once).Do" && len(call.Call.Args) == 2 {
						sites = append(sites, call)
					} else {
						only = false
					}
				}
			}
		}
	}
	return sites, only
}
