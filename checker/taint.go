package main

// A-TAINT: demand-driven string provenance for the DOT emitters (C18-R1).
//
// For the value of every operand written to the DOT builder, compute the set of
// unsanitised sources it may carry.  A source is any string (or []string) field loaded
// from non-local memory, or a string parameter of unknown origin.  The sanitisers are
// escapeForDot / escapeAllForDot.  String operations (concatenation, fmt.Sprint*,
// strings.*, filepath.*, append) propagate the union of their operands.  Local struct
// copies are tracked per field and flow-sensitively (reaching definitions), and module
// callees are evaluated per calling context (which fields of a local receiver are clean).

import (
	"fmt"
	"go/token"
	"go/types"
	"sort"
	"strings"

	"golang.org/x/tools/go/ssa"
)

type taintSet map[string]bool

func (t taintSet) add(o taintSet) taintSet {
	if len(o) == 0 {
		return t
	}
	if t == nil {
		t = taintSet{}
	}
	for k := range o {
		t[k] = true
	}
	return t
}

func (t taintSet) String() string {
	var s []string
	for k := range t {
		if k == sanMarker {
			continue
		}
		s = append(s, k)
	}
	sort.Strings(s)
	return strings.Join(s, ", ")
}

const sanMarker = "#sanitised"

type taintCtx struct {
	key    string
	params map[string]taintSet // "p0", "p0.Name" → taint; absent = default
}

type taintEngine struct {
	p          *Program
	sanitizers map[string]bool // function names (module-relative) whose result is clean
	inertCalls map[string]bool // dynamic callee field names / functions whose result is inert
	deadFields map[string]bool // "graph.DotConfig.LegendURL": never assigned in non-test code
	memo       map[string]taintSet
	inProgress map[string]bool
	depth      int
	Sources    map[string]bool
	raw        map[ssa.Value]bool // slices being evaluated for their contents before an in-place map loop
}

func isStringy(t types.Type) bool {
	switch u := t.Underlying().(type) {
	case *types.Basic:
		return u.Info()&types.IsString != 0
	case *types.Slice:
		return isStringy(u.Elem())
	case *types.Interface:
		return true
	case *types.Array:
		return isStringy(u.Elem())
	case *types.Pointer:
		if a, ok := u.Elem().Underlying().(*types.Array); ok {
			return isStringy(a.Elem())
		}
	}
	return false
}

func (e *taintEngine) src(name string) taintSet {
	e.Sources[name] = true
	return taintSet{name: true}
}

func (e *taintEngine) eval(v ssa.Value, fn *ssa.Function, ctx *taintCtx, seen map[ssa.Value]bool) taintSet {
	if v == nil || seen[v] {
		return nil
	}
	if !isStringy(v.Type()) {
		if _, isTuple := v.Type().(*types.Tuple); !isTuple {
			return nil
		}
	}
	seen[v] = true
	defer delete(seen, v)
	if vals, ok := mappedInPlace(v); ok && !e.raw[v] {
		// for i := range v { v[i] = f(v[i]) } before every other use: the elements are f's results.
		// Inside f's argument, v stands for its original contents.
		if e.raw == nil {
			e.raw = map[ssa.Value]bool{}
		}
		e.raw[v] = true
		delete(seen, v)
		var t taintSet
		for _, val := range vals {
			t = t.add(e.eval(val, fn, ctx, seen))
		}
		delete(e.raw, v)
		seen[v] = true
		return t
	}
	switch x := v.(type) {
	case *ssa.Const:
		return nil
	case *ssa.Parameter:
		for i, p := range fn.Params {
			if p == x {
				if ctx != nil {
					if t, ok := ctx.params[fmt.Sprintf("p%d", i)]; ok {
						return t
					}
				}
				return e.src("parameter " + x.Name() + " of " + fnName(fn))
			}
		}
	case *ssa.FreeVar:
		if vals, ok := cellValues(x); ok {
			var t taintSet
			for _, val := range vals {
				t = t.add(e.eval(val, val.Parent(), nil, seen))
			}
			return t
		}
		return e.src("captured " + x.Name())
	case *ssa.BinOp:
		if x.Op == token.ADD {
			return e.eval(x.X, fn, ctx, seen).add(e.eval(x.Y, fn, ctx, seen))
		}
		return nil
	case *ssa.Phi:
		var t taintSet
		for i, ed := range x.Edges {
			// `if s != "" { s = escape(s) }`: on the edge that skips the assignment s is ""
			if i < len(x.Block().Preds) && stringEmptyOnEdge(ed, x.Block().Preds[i], x.Block()) {
				continue
			}
			t = t.add(e.eval(ed, fn, ctx, seen))
		}
		return t
	case *ssa.MakeInterface:
		return e.eval(x.X, fn, ctx, seen)
	case *ssa.ChangeType:
		return e.eval(x.X, fn, ctx, seen)
	case *ssa.Convert:
		return e.eval(x.X, fn, ctx, seen)
	case *ssa.Slice:
		// slice of a local array (variadic arguments) or re-slice
		if al, ok := x.X.(*ssa.Alloc); ok {
			return e.arrayElems(al, fn, ctx, seen)
		}
		t := e.eval(x.X, fn, ctx, seen)
		if bt, ok := x.X.Type().Underlying().(*types.Basic); ok && bt.Info()&types.IsString != 0 && t[sanMarker] {
			// cutting escaped text can split an escape sequence (\" → ")
			t = t.add(e.src("escaped text cut after escaping in " + fnName(fn)))
		}
		return t
	case *ssa.Extract:
		return e.eval(x.Tuple, fn, ctx, seen)
	case *ssa.Lookup:
		if _, isStr := x.X.Type().Underlying().(*types.Basic); isStr {
			return nil // a byte
		}
		return e.eval(x.X, fn, ctx, seen)
	case *ssa.Index:
		return e.eval(x.X, fn, ctx, seen)
	case *ssa.Field:
		return e.evalFieldOfValue(x.X, x.Field, fn, ctx, seen)
	case *ssa.Alloc:
		return e.arrayElems(x, fn, ctx, seen)
	case *ssa.UnOp:
		if x.Op != token.MUL {
			return nil
		}
		switch a := x.X.(type) {
		case *ssa.FieldAddr:
			return e.evalFieldLoad(x, a, fn, ctx, seen)
		case *ssa.IndexAddr:
			return e.eval(a.X, fn, ctx, seen)
		case *ssa.Alloc, *ssa.FreeVar:
			if vals, ok := cellValues(a.(ssa.Value)); ok {
				var t taintSet
				for _, val := range vals {
					t = t.add(e.eval(val, val.Parent(), ctx, seen))
				}
				return t
			}
			if al, ok := a.(*ssa.Alloc); ok {
				return e.arrayElems(al, fn, ctx, seen)
			}
		case *ssa.Global:
			return nil // package-level strings are program constants here
		}
		return e.src("load " + describeValue(x.X) + " in " + fnName(fn))
	case *ssa.Call:
		return e.evalCall(x, fn, ctx, seen)
	case *ssa.Next, *ssa.Range:
		return nil
	case *ssa.TypeAssert:
		return e.eval(x.X, fn, ctx, seen)
	case *ssa.MakeSlice:
		// elements stored later through IndexAddr
		return e.sliceStores(x, fn, ctx, seen)
	}
	return e.src(fmt.Sprintf("%T in %s", v, fnName(fn)))
}

// sliceStores: union of what is stored into the elements of a made slice.
func (e *taintEngine) sliceStores(s ssa.Value, fn *ssa.Function, ctx *taintCtx, seen map[ssa.Value]bool) taintSet {
	var t taintSet
	if s.Referrers() == nil {
		return nil
	}
	for _, r := range *s.Referrers() {
		if ia, ok := r.(*ssa.IndexAddr); ok && ia.Referrers() != nil {
			for _, r2 := range *ia.Referrers() {
				if st, ok := r2.(*ssa.Store); ok && st.Addr == ia {
					t = t.add(e.eval(st.Val, fn, ctx, seen))
				}
			}
		}
	}
	return t
}

func (e *taintEngine) arrayElems(al *ssa.Alloc, fn *ssa.Function, ctx *taintCtx, seen map[ssa.Value]bool) taintSet {
	var t taintSet
	if al.Referrers() == nil {
		return nil
	}
	for _, r := range *al.Referrers() {
		if ia, ok := r.(*ssa.IndexAddr); ok && ia.Referrers() != nil {
			for _, r2 := range *ia.Referrers() {
				if st, ok := r2.(*ssa.Store); ok && st.Addr == ia {
					t = t.add(e.eval(st.Val, fn, ctx, seen))
				}
			}
		}
	}
	return t
}

func (e *taintEngine) fieldSource(T, F string) taintSet {
	if e.deadFields[T+"."+F] {
		return nil
	}
	return e.src(T + "." + F)
}

func (e *taintEngine) evalFieldOfValue(structVal ssa.Value, field int, fn *ssa.Function, ctx *taintCtx, seen map[ssa.Value]bool) taintSet {
	T, F := fieldOf(structVal.Type(), field)
	// struct value loaded from memory: *p
	if ld, ok := structVal.(*ssa.UnOp); ok && ld.Op == token.MUL {
		return e.evalFieldAt(ld.X, field, ld, fn, ctx, seen)
	}
	return e.fieldSource(T, F)
}

// evalFieldAt: taint of field `field` of the struct that pointer base points to, as seen at
// instruction at.
func (e *taintEngine) evalFieldAt(base ssa.Value, field int, at ssa.Instruction, fn *ssa.Function, ctx *taintCtx, seen map[ssa.Value]bool) taintSet {
	T, F := fieldOf(base.Type(), field)
	switch b := base.(type) {
	case *ssa.Alloc:
		return e.reachingField(b, field, at, fn, ctx, seen)
	case *ssa.Parameter:
		for i, p := range fn.Params {
			if p == b && ctx != nil {
				if t, ok := ctx.params[fmt.Sprintf("p%d.%s", i, F)]; ok {
					return t
				}
			}
		}
	}
	return e.fieldSource(T, F)
}

func (e *taintEngine) evalFieldLoad(ld *ssa.UnOp, fa *ssa.FieldAddr, fn *ssa.Function, ctx *taintCtx, seen map[ssa.Value]bool) taintSet {
	return e.evalFieldAt(fa.X, fa.Field, ld, fn, ctx, seen)
}

// reachingField: flow-sensitive value of field f of local struct al at instruction at.
func (e *taintEngine) reachingField(al *ssa.Alloc, field int, at ssa.Instruction, fn *ssa.Function, ctx *taintCtx, seen map[ssa.Value]bool) taintSet {
	var result taintSet
	visited := map[*ssa.BasicBlock]bool{}
	defOf := func(ins ssa.Instruction) (ssa.Value, bool, bool) { // value, isWhole, isDef
		st, ok := ins.(*ssa.Store)
		if !ok {
			return nil, false, false
		}
		if st.Addr == ssa.Value(al) {
			return st.Val, true, true
		}
		if fa, ok := st.Addr.(*ssa.FieldAddr); ok && fa.X == ssa.Value(al) && fa.Field == field {
			return st.Val, false, true
		}
		return nil, false, false
	}
	var scan func(b *ssa.BasicBlock, from int)
	scan = func(b *ssa.BasicBlock, from int) {
		for i := from; i >= 0; i-- {
			if val, whole, ok := defOf(b.Instrs[i]); ok {
				if whole {
					result = result.add(e.evalFieldOfValue(val, field, fn, ctx, seen))
				} else {
					result = result.add(e.eval(val, fn, ctx, seen))
				}
				return
			}
		}
		if len(b.Preds) == 0 {
			return // zero value
		}
		for _, p := range b.Preds {
			if emptyOnEdge(p, b, al, field) {
				continue // the field is known to be "" along this edge
			}
			if !visited[p] {
				visited[p] = true
				scan(p, len(p.Instrs)-1)
			}
		}
	}
	scan(at.Block(), instrIndex(at)-1)
	return result
}

var stringPassThrough = map[string]bool{
	"fmt.Sprintf": true, "fmt.Sprint": true, "fmt.Sprintln": true,
	"strings.Join": true, "strings.Replace": true, "strings.ReplaceAll": true, "strings.TrimSpace": true,
	"strings.TrimPrefix": true, "strings.TrimSuffix": true, "strings.Trim": true, "strings.ToLower": true, "strings.ToUpper": true,
	"strings.Repeat": true, "strings.Title": true, "strings.Fields": true, "strings.Split": true, "strings.SplitN": true,
	"path/filepath.Base": true, "path/filepath.Clean": true, "path/filepath.Dir": true, "path/filepath.Join": true,
	"path.Base": true, "path.Clean": true,
	"(*regexp.Regexp).ReplaceAllString": true, "(*regexp.Regexp).FindStringSubmatch": true, "(*regexp.Regexp).FindString": true,
	"strconv.Itoa": true, "strconv.FormatInt": true, "strconv.FormatFloat": true, "strconv.Quote": true,
	"(*strings.Builder).String": true,
}

func (e *taintEngine) evalCall(call *ssa.Call, fn *ssa.Function, ctx *taintCtx, seen map[ssa.Value]bool) taintSet {
	cc := call.Common()
	if b, ok := cc.Value.(*ssa.Builtin); ok {
		switch b.Name() {
		case "append":
			var t taintSet
			for _, a := range cc.Args {
				t = t.add(e.eval(a, fn, ctx, seen))
			}
			return t
		}
		return nil
	}
	sc := cc.StaticCallee()
	if sc == nil {
		// dynamic: function-typed field
		if ld, ok := cc.Value.(*ssa.UnOp); ok {
			if fa, ok := ld.X.(*ssa.FieldAddr); ok {
				T, F := fieldOf(fa.X.Type(), fa.Field)
				if e.inertCalls[T+"."+F] {
					return nil
				}
				if e.deadFields[T+"."+F] {
					return nil
				}
				return e.src("result of hook " + T + "." + F)
			}
		}
		if cc.IsInvoke() {
			return e.src("result of interface call " + cc.Method.Name())
		}
		return e.src("result of dynamic call in " + fnName(fn))
	}
	name := sc.String()
	short := fnName(sc)
	if e.sanitizers[short] {
		return taintSet{sanMarker: true}
	}
	if !fnInModule(sc) {
		if stringPassThrough[name] {
			var t taintSet
			for _, a := range cc.Args {
				t = t.add(e.eval(a, fn, ctx, seen))
			}
			if t[sanMarker] && (strings.HasPrefix(name, "strings.Trim") || name == "strings.Split" || name == "strings.SplitN") {
				t = t.add(e.src("escaped text cut by " + name + " after escaping in " + fnName(fn)))
			}
			return t
		}
		// other library functions: numeric formatting etc.  Propagate conservatively.
		var t taintSet
		for _, a := range cc.Args {
			t = t.add(e.eval(a, fn, ctx, seen))
		}
		return t
	}
	// module callee: evaluate its results in the context of this call
	if sc.Blocks == nil {
		return e.src("result of " + short)
	}
	nctx := &taintCtx{params: map[string]taintSet{}}
	var keyParts []string
	for i, a := range cc.Args {
		pk := fmt.Sprintf("p%d", i)
		if isStringy(a.Type()) {
			t := e.eval(a, fn, ctx, seen)
			nctx.params[pk] = t
			keyParts = append(keyParts, pk+"="+t.String())
		}
		// pointer to a local struct: per-field taint at the call
		if al, ok := a.(*ssa.Alloc); ok {
			if st, ok := al.Type().Underlying().(*types.Pointer).Elem().Underlying().(*types.Struct); ok {
				for f := 0; f < st.NumFields(); f++ {
					if isStringy(st.Field(f).Type()) {
						t := e.reachingField(al, f, call, fn, ctx, seen)
						nctx.params[pk+"."+st.Field(f).Name()] = t
						keyParts = append(keyParts, pk+"."+st.Field(f).Name()+"="+t.String())
					}
				}
			}
		}
		// pointer parameter forwarded from our own context
		if p, ok := a.(*ssa.Parameter); ok && ctx != nil {
			for j, q := range fn.Params {
				if q == p {
					pre := fmt.Sprintf("p%d.", j)
					for k, t := range ctx.params {
						if strings.HasPrefix(k, pre) {
							nctx.params[pk+"."+strings.TrimPrefix(k, pre)] = t
							keyParts = append(keyParts, pk+"."+strings.TrimPrefix(k, pre)+"="+t.String())
						}
					}
				}
			}
		}
	}
	sort.Strings(keyParts)
	nctx.key = short + "{" + strings.Join(keyParts, ";") + "}"
	if t, ok := e.memo[nctx.key]; ok {
		return t
	}
	if e.inProgress[nctx.key] || e.depth > 12 {
		return nil // recursion: the fixpoint contribution comes from the outer evaluation
	}
	e.inProgress[nctx.key] = true
	e.depth++
	var t taintSet
	for _, b := range sc.Blocks {
		for _, ins := range b.Instrs {
			if ret, ok := ins.(*ssa.Return); ok {
				for _, r := range ret.Results {
					t = t.add(e.eval(r, sc, nctx, map[ssa.Value]bool{}))
				}
			}
		}
	}
	e.depth--
	delete(e.inProgress, nctx.key)
	e.memo[nctx.key] = t
	return t
}

// emptyOnEdge: the edge from → to is taken only when field `field` of local struct al is "".
func emptyOnEdge(from, to *ssa.BasicBlock, al *ssa.Alloc, field int) bool {
	if len(from.Instrs) == 0 {
		return false
	}
	iff, ok := from.Instrs[len(from.Instrs)-1].(*ssa.If)
	if !ok {
		return false
	}
	cmp, ok := iff.Cond.(*ssa.BinOp)
	if !ok || (cmp.Op != token.NEQ && cmp.Op != token.EQL) {
		return false
	}
	isField := func(v ssa.Value) bool {
		ld, ok := v.(*ssa.UnOp)
		if !ok || ld.Op != token.MUL {
			return false
		}
		fa, ok := ld.X.(*ssa.FieldAddr)
		return ok && fa.X == ssa.Value(al) && fa.Field == field
	}
	isEmpty := func(v ssa.Value) bool { s, ok := constString(v); return ok && s == "" }
	if !((isField(cmp.X) && isEmpty(cmp.Y)) || (isField(cmp.Y) && isEmpty(cmp.X))) {
		return false
	}
	if cmp.Op == token.NEQ {
		return from.Succs[1] == to && from.Succs[0] != to
	}
	return from.Succs[0] == to && from.Succs[1] != to
}

// mappedInPlace: v is a slice every element of which is overwritten by one forward loop
// over v itself (`for i := range v { v[i] = … }`), and every use of v other than its
// length and the element accesses of that loop comes after the loop.  Returns the
// values stored.
func mappedInPlace(v ssa.Value) ([]ssa.Value, bool) {
	if _, isSlice := v.Type().Underlying().(*types.Slice); !isSlice || v.Referrers() == nil {
		return nil, false
	}
	if _, isConst := v.(*ssa.Const); isConst {
		return nil, false
	}
	var stores []*ssa.Store
	var hdr *ssa.BasicBlock
	var others []ssa.Instruction
	for _, r := range *v.Referrers() {
		switch x := r.(type) {
		case *ssa.DebugRef:
			continue
		case *ssa.Call:
			if lenSlice(x) == v {
				continue
			}
		case *ssa.IndexAddr:
			bound, ok := forwardIndex(x.Index)
			if ok && x.X == v && lenSlice(bound) == v && x.Referrers() != nil {
				elemOnly := true
				for _, r2 := range *x.Referrers() {
					switch y := r2.(type) {
					case *ssa.Store:
						if y.Addr != ssa.Value(x) {
							elemOnly = false
						} else {
							stores = append(stores, y)
						}
					case *ssa.UnOp, *ssa.DebugRef:
					default:
						elemOnly = false
					}
				}
				if elemOnly {
					h := loopHeaderOfIndex(x.Index)
					if h != nil && (hdr == nil || hdr == h) {
						hdr = h
						continue
					}
				}
			}
		}
		others = append(others, r)
	}
	if len(stores) == 0 || hdr == nil {
		return nil, false
	}
	loop := naturalLoop(hdr)
	var vals []ssa.Value
	for _, st := range stores {
		if !loop[st.Block()] {
			return nil, false
		}
		vals = append(vals, st.Val)
	}
	// some store runs on every iteration
	every := false
	for _, st := range stores {
		all := true
		for _, p := range hdr.Preds {
			if loop[p] && !st.Block().Dominates(p) {
				all = false
			}
		}
		if all {
			every = true
		}
	}
	if !every || len(stores) != 1 {
		return nil, false
	}
	for _, o := range others {
		if o.Block() == nil || loop[o.Block()] || !hdr.Dominates(o.Block()) {
			return nil, false
		}
	}
	return vals, true
}

// loopHeaderOfIndex: the block whose `idx < bound` test controls the forward loop of idx.
func loopHeaderOfIndex(idx ssa.Value) *ssa.BasicBlock {
	var counter ssa.Value = idx
	if !rangeIndex(idx) {
		if _, ok := idx.(*ssa.Phi); !ok {
			return nil
		}
	}
	for _, r := range *counter.Referrers() {
		if cmp, ok := r.(*ssa.BinOp); ok && cmp.Op == token.LSS && cmp.X == counter {
			for _, rr := range *cmp.Referrers() {
				if _, isIf := rr.(*ssa.If); isIf {
					return rr.Block()
				}
			}
		}
	}
	return nil
}

// stringEmptyOnEdge: the edge pred→blk is taken only when the string v is empty: pred ends
// in a test of v against "" and blk is the successor of the "equal" outcome.
func stringEmptyOnEdge(v ssa.Value, pred, blk *ssa.BasicBlock) bool {
	if len(pred.Instrs) == 0 {
		return false
	}
	iff, ok := pred.Instrs[len(pred.Instrs)-1].(*ssa.If)
	if !ok || len(pred.Succs) != 2 || pred.Succs[0] == pred.Succs[1] {
		return false
	}
	cmp, ok := iff.Cond.(*ssa.BinOp)
	if !ok || (cmp.Op != token.EQL && cmp.Op != token.NEQ) {
		return false
	}
	var other ssa.Value
	switch {
	case cmp.X == v:
		other = cmp.Y
	case cmp.Y == v:
		other = cmp.X
	default:
		return false
	}
	if s, isStr := constString(other); !isStr || s != "" {
		return false
	}
	if cmp.Op == token.EQL {
		return pred.Succs[0] == blk
	}
	return pred.Succs[1] == blk
}
