package main

import (
	"fmt"
	"strings"

	"golang.org/x/tools/go/ssa"
)

// fetchTree: grabProfile and the functions of package driver reachable from it.
func (c *Check) fetchTree(rule string) ([]*ssa.Function, map[*ssa.Function]*ssa.Function) {
	gp := c.anchorFn(rule, "internal/driver", "grabProfile")
	if gp == nil {
		return nil, nil
	}
	parent, order := c.P.MG().Reach([]*ssa.Function{gp}, nil)
	var out []*ssa.Function
	for _, f := range order {
		if strings.HasSuffix(fnPkgPath(f), "internal/driver") && len(f.Blocks) > 0 {
			out = append(out, f)
		}
	}
	return out, parent
}

// noGlobalLockAcrossFetch (R9): the sources of a group are fetched concurrently.  What a
// fetch goroutine does for its source may take a package-level mutex only for a section
// without calls (the registration of a temporary file): a package-level lock held across a
// call is held across the network fetch or the parse, so the fetches run one after the other
// and a source whose answer depends on another request being in flight is never fetched.
func (c *Check) noGlobalLockAcrossFetch() {
	p := c.P
	fns, parent := c.fetchTree("C16-R9")
	if fns == nil {
		return
	}
	n := 0
	for _, f := range fns {
		for _, b := range f.Blocks {
			for k, ins := range b.Instrs {
				call, ok := ins.(*ssa.Call)
				if !ok || call.Call.StaticCallee() == nil {
					continue
				}
				switch call.Call.StaticCallee().String() {
				case "(*sync.Mutex).Lock", "(*sync.RWMutex).Lock", "(*sync.RWMutex).RLock":
				default:
					continue
				}
				g := globalOf(call.Call.Args[0])
				if g == nil {
					continue
				}
				n++
				key := "global-lock:" + g.Name() + "@" + fnName(f)
				isUnlock := func(i ssa.Instruction) bool {
					cc, ok := i.(ssa.CallInstruction)
					if !ok || cc.Common().StaticCallee() == nil || !strings.Contains(cc.Common().StaticCallee().Name(), "nlock") || len(cc.Common().Args) == 0 {
						return false
					}
					if _, isDefer := i.(*ssa.Defer); isDefer {
						return false // runs at function exit
					}
					return globalOf(cc.Common().Args[0]) == g
				}
				held := ""
				seen := map[*ssa.BasicBlock]bool{}
				var scan func(blk *ssa.BasicBlock, from int)
				scan = func(blk *ssa.BasicBlock, from int) {
					for _, i2 := range blk.Instrs[from:] {
						if isUnlock(i2) {
							return
						}
						switch x := i2.(type) {
						case *ssa.Call:
							if _, isBuiltin := x.Call.Value.(*ssa.Builtin); !isBuiltin && held == "" {
								if par, isPar := x.Call.Value.(*ssa.Parameter); isPar && callFreeAtFetchCallers(p, f, par, fns) {
									continue // an update function handed in by the caller that itself calls nothing
								}
								held = p.relFile(x.Pos())
							}
						case *ssa.Go:
							if held == "" {
								held = p.relFile(x.Pos())
							}
						}
					}
					for _, sc := range blk.Succs {
						if !seen[sc] {
							seen[sc] = true
							scan(sc, 0)
						}
					}
				}
				scan(b, k+1)
				if held != "" {
					c.bad("C16-R9", key, p.relFile(call.Pos()), fmt.Sprintf("%s (%s) holds the package-level mutex %s across a call (%s): every fetch goroutine passes through it, so the sources are fetched one at a time instead of concurrently", fnName(f), callPath(parent, f), g.Name(), held))
				} else {
					c.ok("C16-R9", key, p.relFile(call.Pos()), "the package-level mutex "+g.Name()+" is held only for a section without calls in "+fnName(f), "no call, go statement or interface invocation between Lock and Unlock")
				}
			}
		}
	}
	if n == 0 {
		c.ok("C16-R9", "global-lock:none", "", "the per-source work of a fetch goroutine takes no package-level lock", fmt.Sprintf("%d functions of package driver reachable from grabProfile scanned", len(fns)))
	}
}

// fetchFilesExclusive (R10, the rule of C20-R3 on the fetch tree): files that a fetch
// goroutine creates under a name pprof chooses are created exclusively (CreateTemp or
// O_EXCL): two sources converted at the same time never share an output file.
func (c *Check) fetchFilesExclusive() {
	fns, _ := c.fetchTree("C16-R10")
	if fns == nil {
		return
	}
	in := map[string]bool{}
	for _, f := range fns {
		in[fnName(f)] = true
	}
	before := len(c.Obls)
	c.tempFileCreation()
	kept := c.Obls[:before]
	n := 0
	for _, o := range c.Obls[before:] {
		// key: create:<function>:<callee>
		rest := strings.TrimPrefix(o.Key, "create:")
		i := strings.LastIndex(rest, ":")
		if i < 0 || !in[rest[:i]] {
			continue
		}
		o.Rule = "C16-R10"
		kept = append(kept, o)
		n++
	}
	c.Obls = kept
	if n == 0 {
		c.undecided("C16-R10", "create", "", "no file creation found in the fetch tree (newTempFile and convertPerfData were there)")
	}
}

// callFreeAtFetchCallers: every function of the fetch tree that calls f passes, for the
// function-typed parameter par, a function literal (or named function) whose body makes no
// call other than builtins.
func callFreeAtFetchCallers(p *Program, f *ssa.Function, par *ssa.Parameter, tree []*ssa.Function) bool {
	idx := -1
	for i, q := range f.Params {
		if q == par {
			idx = i
		}
	}
	if idx < 0 {
		return false
	}
	inTree := map[*ssa.Function]bool{}
	for _, g := range tree {
		inTree[g] = true
	}
	n := 0
	for _, g := range tree {
		for _, b := range g.Blocks {
			for _, ins := range b.Instrs {
				cs, ok := ins.(ssa.CallInstruction)
				if !ok || cs.Common().StaticCallee() != f || idx >= len(cs.Common().Args) {
					continue
				}
				n++
				var fn *ssa.Function
				switch a := cs.Common().Args[idx].(type) {
				case *ssa.MakeClosure:
					fn, _ = a.Fn.(*ssa.Function)
				case *ssa.Function:
					fn = a
				}
				if fn == nil || len(fn.Blocks) == 0 {
					return false
				}
				for _, fb := range fn.Blocks {
					for _, fi := range fb.Instrs {
						if cc, ok := fi.(ssa.CallInstruction); ok {
							if _, isBuiltin := cc.Common().Value.(*ssa.Builtin); !isBuiltin {
								return false
							}
						}
					}
				}
			}
		}
	}
	return n > 0
}
