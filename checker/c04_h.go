package main

import (
	"fmt"
	"go/token"
	"go/types"

	"golang.org/x/tools/go/ssa"
)

// nodeSelectionKeepsFlat (R9): an entry's flat value is shown whenever it is not zero.  The
// function that turns the node table of newGraph into the graph's node list may leave a node
// out on account of its values only when flat and cum are both zero: assuming the node is
// non-nil, its Flat is non-zero and negative entries are not being dropped, no path through
// one iteration of the selection loop avoids the statement that keeps the node.
func (c *Check) nodeSelectionKeepsFlat() {
	p := c.P
	ng := c.anchorFn("C04-R9", "internal/graph", "newGraph")
	if ng == nil {
		return
	}
	// the function that builds the *Graph result: newGraph itself or the helper whose result it returns
	sel := ng
	for _, b := range ng.Blocks {
		ret, ok := b.Instrs[len(b.Instrs)-1].(*ssa.Return)
		if !ok || len(ret.Results) == 0 {
			continue
		}
		v := ret.Results[0]
		if ex, ok := v.(*ssa.Extract); ok {
			v = ex.Tuple
		}
		if call, ok := v.(*ssa.Call); ok {
			if h := helperCallee(ng, call); h != nil {
				sel = h
			}
		}
	}
	key := "keep-nonzero-flat"
	// keep sites: appends / counter-indexed stores of a *Node
	var keeps []harvestSite
	for _, h := range harvestSites(sel) {
		if structName(h.val.Type()) == "graph.Node" {
			keeps = append(keeps, h)
		}
	}
	if len(keeps) != 1 {
		c.undecided("C04-R9", key, p.relFile(sel.Pos()), fmt.Sprintf("%s: expected one statement that adds a node to the graph's node list, found %d", fnName(sel), len(keeps)))
		return
	}
	keep := keeps[0].ins.Block()
	node := keeps[0].val
	var hdr *ssa.BasicBlock
	for d := keep; d != nil && hdr == nil; d = d.Idom() {
		for _, pred := range d.Preds {
			if d.Dominates(pred) && naturalLoop(d)[keep] {
				hdr = d
			}
		}
	}
	if hdr == nil {
		c.undecided("C04-R9", key, p.relFile(keeps[0].ins.Pos()), "the statement that keeps a node is not inside a loop")
		return
	}
	var mkAssume func(node ssa.Value, depth int) func(ssa.Value) int
	mkAssume = func(node ssa.Value, depth int) func(ssa.Value) int {
		isFieldOfNode := func(v ssa.Value, name string) bool {
			ld, ok := v.(*ssa.UnOp)
			if !ok || ld.Op != token.MUL {
				return false
			}
			fa, ok := ld.X.(*ssa.FieldAddr)
			if !ok {
				return false
			}
			T, F := fieldOf(fa.X.Type(), fa.Field)
			return T == "graph.Node" && F == name && fa.X == node
		}
		return func(cond ssa.Value) int {
			switch x := cond.(type) {
			case *ssa.BinOp:
				sign := 0
				switch x.Op {
				case token.EQL:
					sign = -1
				case token.NEQ:
					sign = 1
				default:
					return 0
				}
				for _, pair := range [][2]ssa.Value{{x.X, x.Y}, {x.Y, x.X}} {
					if pair[0] == node && isNilConst(pair[1]) {
						return sign // n != nil
					}
					if isFieldOfNode(pair[0], "Flat") && isConstInt(pair[1], 0) {
						return sign // n.Flat != 0
					}
				}
			case *ssa.Parameter:
				if bt, ok := x.Type().Underlying().(*types.Basic); ok && bt.Kind() == types.Bool {
					return -1 // dropNegative is off
				}
			case *ssa.UnOp:
				if x.Op == token.NOT {
					if pr, ok := x.X.(*ssa.Parameter); ok {
						if bt, ok := pr.Type().Underlying().(*types.Basic); ok && bt.Kind() == types.Bool {
							return 1
						}
					}
				}
			case *ssa.Call:
				// a predicate on the node written as a helper: its verdict under the same assumptions
				if depth > 1 {
					return 0
				}
				h := helperCallee(x.Parent(), x)
				if h == nil || h.Signature.Results().Len() != 1 || len(h.Params) != len(x.Call.Args) {
					return 0
				}
				if bt, ok := h.Signature.Results().At(0).Type().Underlying().(*types.Basic); !ok || bt.Kind() != types.Bool {
					return 0
				}
				for i, a := range x.Call.Args {
					if a == node {
						return boolResultUnder(h, mkAssume(h.Params[i], depth+1))
					}
				}
			}
			return 0
		}
	}
	assume := mkAssume(node, 0)
	loop := naturalLoop(hdr)
	skipped := false
	seen := map[*ssa.BasicBlock]bool{}
	var walk func(b *ssa.BasicBlock)
	walk = func(b *ssa.BasicBlock) {
		if b == keep || seen[b] || skipped {
			return
		}
		if b == hdr {
			skipped = true
			return
		}
		if !loop[b] {
			return
		}
		seen[b] = true
		succs := b.Succs
		if iff, ok := b.Instrs[len(b.Instrs)-1].(*ssa.If); ok {
			switch assume(iff.Cond) {
			case 1:
				succs = b.Succs[:1]
			case -1:
				succs = b.Succs[1:]
			}
		}
		for _, sc := range succs {
			walk(sc)
		}
	}
	for _, sc := range hdr.Succs {
		if loop[sc] {
			walk(sc)
		}
	}
	if skipped {
		c.bad("C04-R9", key, p.relFile(keeps[0].ins.Pos()), fnName(sel)+" can leave out a node whose flat value is not zero (for instance when only its cum is zero): in a profile with negative values an entry with flat 5 and cum 0 disappears from every output form and the flat column no longer adds up to the sample values")
	} else {
		c.ok("C04-R9", key, p.relFile(keeps[0].ins.Pos()), "a node with a non-zero flat value is always kept by "+fnName(sel), "with n != nil, n.Flat != 0 and negative entries not dropped, no path through an iteration avoids the statement that keeps the node")
	}
}

// storesEdgeField: f (or a same-package function it calls, to the depth) stores into the
// named field of graph.Edge; for a divisor field also reports which parameter of f the
// stored value comes from (-1: a constant or none).
func storesEdgeField(f *ssa.Function, field string, depth int) (stores bool, param int) {
	param = -1
	if f == nil || len(f.Blocks) == 0 {
		return false, -1
	}
	paramIdx := func(v ssa.Value) int {
		for i := 0; i < 6; i++ {
			switch x := v.(type) {
			case *ssa.BinOp:
				if _, isLoad := x.X.(*ssa.UnOp); isLoad {
					v = x.Y
				} else {
					v = x.X
				}
				continue
			case *ssa.Convert:
				v = x.X
				continue
			case *ssa.Parameter:
				for k, q := range f.Params {
					if q == x {
						return k
					}
				}
			}
			break
		}
		return -1
	}
	for _, b := range f.Blocks {
		for _, ins := range b.Instrs {
			switch x := ins.(type) {
			case *ssa.Store:
				if fa, ok := x.Addr.(*ssa.FieldAddr); ok {
					if T, F := fieldOf(fa.X.Type(), fa.Field); T == "graph.Edge" && F == field {
						stores = true
						if k := paramIdx(x.Val); k >= 0 {
							param = k
						}
					}
				}
			case *ssa.Call:
				if depth <= 0 {
					continue
				}
				callee := x.Call.StaticCallee()
				if callee == nil || fnPkgPath(callee) != fnPkgPath(f) || callee == f {
					continue
				}
				st, pk := storesEdgeField(callee, field, depth-1)
				if st {
					stores = true
					if pk >= 0 && pk < len(x.Call.Args) {
						if k := paramIdx(x.Call.Args[pk]); k >= 0 {
							param = k
						}
					}
				}
			}
		}
	}
	return
}

// edgesCarryDivisor (R10): with the mean option an edge's weight is divided by the same
// per-sample divisor as the nodes it connects.  Every call in the graph construction
// (newGraph, newTree and their helpers) that adds weight to an edge must hand a divisor to
// the accumulation of Edge.WeightDiv; the convenience form that accumulates a constant zero
// divisor shows raw sums next to divided node values.
func (c *Check) edgesCarryDivisor() {
	p := c.P
	for _, name := range []string{"newGraph", "newTree"} {
		f := c.anchorFn("C04-R10", "internal/graph", name)
		if f == nil {
			continue
		}
		n := 0
		for _, g := range withHelpers(f, 2) {
			for _, b := range g.Blocks {
				for _, ins := range b.Instrs {
					call, ok := ins.(*ssa.Call)
					if !ok {
						continue
					}
					callee := call.Call.StaticCallee()
					if callee == nil || fnPkgPath(callee) != fnPkgPath(f) || callee.Signature.Recv() == nil || structName(callee.Signature.Recv().Type()) != "graph.Node" {
						continue
					}
					if w, _ := storesEdgeField(callee, "Weight", 2); !w {
						continue
					}
					n++
					key := fmt.Sprintf("edge-divisor:%s#%d", name, n)
					if _, k := storesEdgeField(callee, "WeightDiv", 2); k < 0 {
						c.bad("C04-R10", key, p.relFile(call.Pos()), fnName(g)+" adds a sample's weight to an edge through "+callee.Name()+", which accumulates no divisor: with the mean option the edge shows the raw sum while the nodes it connects show the mean")
					} else {
						c.ok("C04-R10", key, p.relFile(call.Pos()), "edge weight added together with its divisor in "+fnName(g), callee.Name()+" stores parameter #"+fmt.Sprint(k)+" into Edge.WeightDiv")
					}
				}
			}
		}
		if n == 0 {
			c.undecided("C04-R10", "edge-divisor:"+name, p.relFile(f.Pos()), "no call that adds weight to an edge found in "+name)
		}
	}
}

// pseudoFrameListsFresh (R11): the pseudo-frame lists that tagroot and tagleaf produce for
// one sample are both alive until the sample's new stack is assembled.  A function of
// addLabelNodes that returns such a list must build it in storage of its own: a list that
// re-uses a buffer kept between calls is overwritten by the next call, so the tagroot frames
// of a sample become its tagleaf frames.
func (c *Check) pseudoFrameListsFresh() {
	p := c.P
	f := c.anchorFn("C04-R11", "internal/driver", "addLabelNodes")
	if f == nil {
		return
	}
	n := 0
	for _, g := range withHelpers(f, 2) {
		if g == f {
			continue
		}
		res := g.Signature.Results()
		if res.Len() == 0 {
			continue
		}
		sl, ok := res.At(0).Type().Underlying().(*types.Slice)
		if !ok || structName(sl.Elem()) != "profile.Location" {
			continue
		}
		n++
		key := "fresh-list:" + fnName(g)
		shared := ""
		var origin func(v ssa.Value, seen map[ssa.Value]bool)
		origin = func(v ssa.Value, seen map[ssa.Value]bool) {
			if seen[v] || shared != "" {
				return
			}
			seen[v] = true
			switch x := v.(type) {
			case *ssa.Const, *ssa.MakeSlice:
			case *ssa.Phi:
				for _, e := range x.Edges {
					origin(e, seen)
				}
			case *ssa.Slice:
				origin(x.X, seen)
			case *ssa.Call:
				if bi, ok := x.Call.Value.(*ssa.Builtin); ok && bi.Name() == "append" {
					origin(x.Call.Args[0], seen)
					return
				}
				// result of another function: fresh when that function is (checked on its own)
			case *ssa.UnOp:
				if x.Op != token.MUL {
					return
				}
				base, _ := addrBase(x.X)
				switch bb := base.(type) {
				case *ssa.Alloc:
					for _, st := range storesTo(g, bb) {
						origin(st, seen)
					}
				case *ssa.FreeVar, *ssa.Global:
					shared = describeValue(x.X)
				case *ssa.Parameter:
					shared = describeValue(x.X)
				}
			}
		}
		for _, b := range g.Blocks {
			ret, ok := b.Instrs[len(b.Instrs)-1].(*ssa.Return)
			if !ok {
				continue
			}
			origin(ret.Results[0], map[ssa.Value]bool{})
		}
		if shared != "" {
			c.bad("C04-R11", key, p.relFile(g.Pos()), fnName(g)+" returns a pseudo-frame list built in "+shared+", storage that outlives the call: the list made for tagroot is overwritten when the list for tagleaf is made, so with both options the tagroot entries vanish and their values are booked on the tagleaf entries")
		} else {
			c.ok("C04-R11", key, p.relFile(g.Pos()), fnName(g)+" returns a pseudo-frame list built in storage of its own", "every returned slice starts from nil/make inside the call")
		}
	}
	if n == 0 {
		c.ok("C04-R11", "fresh-list:inline", p.relFile(f.Pos()), "addLabelNodes builds the pseudo-frame lists inline", "no helper returns a location list")
	}
}

// storesTo: the values stored directly into the local variable a within g.
func storesTo(g *ssa.Function, a *ssa.Alloc) []ssa.Value {
	var out []ssa.Value
	for _, b := range g.Blocks {
		for _, ins := range b.Instrs {
			if st, ok := ins.(*ssa.Store); ok && st.Addr == ssa.Value(a) {
				out = append(out, st.Val)
			}
		}
	}
	return out
}
