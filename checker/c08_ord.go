package main

// A-ORD: comparator shape analysis (C08-R1, C08-R3).
//
// Every function that can run as the "less" of a sort is discovered through the
// type-checked program (Less methods of module types, function literals handed to
// sort.Slice*, the function values a Less method calls and their static callees) and its
// body is read as a lexicographic chain
//
//	if g(l) != g(r) { return h(l) OP h(r) } … return h_n(l) OP h_n(r)   |  return cmp(l, r)
//
// R1 requires g ≡ h in every step (otherwise the relation is not a strict weak order:
// elements with g(l) != g(r) but h(l) == h(r) are unordered and the later tie-breaks are
// never consulted), the r-side to be the mirror image of the l-side, and only < / >.
// R3 requires the chain of the comparators that order report entries, edges and tags to
// contain an identity key of the element type (so the order is total).

import (
	"fmt"
	"go/ast"
	"go/token"
	"go/types"
	"regexp"
	"sort"
	"strings"

	"golang.org/x/tools/go/packages"
	"golang.org/x/tools/go/ssa"
)

type cmpStep struct {
	guardL, guardR ast.Expr // nil for the final return
	retL, retR     ast.Expr
	op             token.Token
	pos            token.Pos
	delegate       string // callee name for `return cmp(l, r)`
	delegateFn     *ssa.Function
}

type comparator struct {
	fn         *ssa.Function
	pkg        *packages.Package
	lname      string // identifier standing for the left element / index
	rname      string
	elemTy     types.Type // element type being ordered (nil when index-based and unknown)
	steps      []cmpStep
	errs       []string
	keysL      []string // normalised l-side keys of the chain, in order
	afterTable bool     // the last steps came from a loop over a table of key functions
	viol       []string
}

func (p *Program) pkgOfFn(f *ssa.Function) *packages.Package {
	return p.ByPath[fnPkgPath(f)]
}

// discoverComparators finds every module function that may run as a sort's less.
func discoverComparators(p *Program) []*ssa.Function {
	set := map[*ssa.Function]bool{}
	var work []*ssa.Function
	add := func(f *ssa.Function) {
		if f != nil && fnInModule(f) && f.Blocks != nil && !set[f] {
			set[f] = true
			work = append(work, f)
		}
	}
	isLessSig := func(sig *types.Signature) bool {
		if sig.Params().Len() != 2 || sig.Results().Len() != 1 {
			return false
		}
		if b, ok := sig.Results().At(0).Type().Underlying().(*types.Basic); !ok || b.Kind() != types.Bool {
			return false
		}
		return types.Identical(sig.Params().At(0).Type(), sig.Params().At(1).Type())
	}
	// (a) Less methods of module types that also have Len and Swap
	for _, t := range p.moduleNamedTypes() {
		ms := p.SSA.MethodSets.MethodSet(t)
		var less *types.Selection
		n := 0
		for i := 0; i < ms.Len(); i++ {
			switch ms.At(i).Obj().Name() {
			case "Less":
				less = ms.At(i)
				n++
			case "Len", "Swap":
				n++
			}
		}
		if n == 3 && less != nil {
			add(p.SSA.MethodValue(less))
		}
	}
	// (b) function values handed to sort.Slice*/slices.Sort*Func
	mg := p.MG()
	for f := range p.AllFns {
		if !fnInModule(f) || f.Blocks == nil {
			continue
		}
		for _, b := range f.Blocks {
			for _, ins := range b.Instrs {
				call, ok := ins.(ssa.CallInstruction)
				if !ok {
					continue
				}
				sc := call.Common().StaticCallee()
				if sc == nil {
					continue
				}
				switch sc.String() {
				case "sort.Slice", "sort.SliceStable", "slices.SortFunc", "slices.SortStableFunc":
					fns, _ := mg.funcValues(call.Common().Args[1], map[ssa.Value]bool{})
					for _, g := range fns {
						add(g)
					}
				}
			}
		}
	}
	// (c) closure: function values called by a comparator with a (T, T) bool signature
	for len(work) > 0 {
		f := work[len(work)-1]
		work = work[:len(work)-1]
		for _, b := range f.Blocks {
			for _, ins := range b.Instrs {
				call, ok := ins.(ssa.CallInstruction)
				if !ok {
					continue
				}
				cc := call.Common()
				if cc.IsInvoke() {
					continue
				}
				sig, ok := cc.Value.Type().Underlying().(*types.Signature)
				if !ok || !(isLessSig(sig) || isLessSigWithConfig(sig)) {
					continue
				}
				if sc := cc.StaticCallee(); sc != nil {
					add(sc)
					continue
				}
				for _, g := range dynCallees(p.CG(), f, call) {
					add(g)
				}
			}
		}
	}
	var out []*ssa.Function
	for f := range set {
		out = append(out, f)
	}
	sortFns(out)
	return out
}

// isLessSigWithConfig: func(l, r T, cfg ...) bool with scalar configuration parameters after
// the two elements (e.g. tagBefore(a, b *Tag, flat bool)).
func isLessSigWithConfig(sig *types.Signature) bool {
	if sig.Params().Len() < 3 || sig.Results().Len() != 1 {
		return false
	}
	if b, ok := sig.Results().At(0).Type().Underlying().(*types.Basic); !ok || b.Kind() != types.Bool {
		return false
	}
	if !types.Identical(sig.Params().At(0).Type(), sig.Params().At(1).Type()) {
		return false
	}
	if _, isBasic := sig.Params().At(0).Type().Underlying().(*types.Basic); isBasic {
		return false // (i, j int, …) is not an element comparison
	}
	for i := 2; i < sig.Params().Len(); i++ {
		if _, ok := sig.Params().At(i).Type().Underlying().(*types.Basic); !ok {
			return false
		}
	}
	return true
}

// parseComparator reads the body of f as a lexicographic chain.
func parseComparator(p *Program, f *ssa.Function) *comparator {
	c := &comparator{fn: f, pkg: p.pkgOfFn(f)}
	var ftype *ast.FuncType
	var body *ast.BlockStmt
	switch n := f.Syntax().(type) {
	case *ast.FuncDecl:
		ftype, body = n.Type, n.Body
	case *ast.FuncLit:
		ftype, body = n.Type, n.Body
	default:
		c.errs = append(c.errs, "no syntax")
		return c
	}
	var names []string
	for _, fl := range ftype.Params.List {
		for _, n := range fl.Names {
			names = append(names, n.Name)
		}
	}
	if len(names) < 2 {
		c.errs = append(c.errs, "comparator does not have two named parameters")
		return c
	}
	c.lname, c.rname = names[0], names[1]
	env := map[string]ast.Expr{}
	c.parseBlock(p, body.List, env, true)
	return c
}

func (c *comparator) errorf(pos token.Pos, format string, args ...interface{}) {
	c.errs = append(c.errs, fmt.Sprintf(format, args...))
}

func (c *comparator) parseBlock(p *Program, stmts []ast.Stmt, env map[string]ast.Expr, top bool) {
	for i, s := range stmts {
		switch st := s.(type) {
		case *ast.AssignStmt:
			if st.Tok != token.DEFINE && st.Tok != token.ASSIGN {
				c.errorf(st.Pos(), "unsupported assignment in comparator")
				continue
			}
			bindAssign(st, env)
		case *ast.IfStmt:
			if st.Else != nil {
				c.errorf(st.Pos(), "if/else in comparator")
				continue
			}
			local := env
			if st.Init != nil {
				as, ok := st.Init.(*ast.AssignStmt)
				if !ok {
					c.errorf(st.Pos(), "unsupported if-init")
					continue
				}
				local = copyEnv(env)
				bindAssign(as, local)
			}
			cond, ok := st.Cond.(*ast.BinaryExpr)
			// three-way key: if c := cmp.Compare(A, B); c != 0 { return c < 0 }
			if ok && cond.Op == token.NEQ && len(st.Body.List) == 1 {
				if ret, isRet := st.Body.List[0].(*ast.ReturnStmt); isRet && len(ret.Results) == 1 {
					cx, isCall := subst(cond.X, local).(*ast.CallExpr)
					rb, isBin := subst(ret.Results[0], local).(*ast.BinaryExpr)
					if isCall && isBin && len(cx.Args) == 2 && isZeroLit(cond.Y) && isZeroLit(rb.Y) && (rb.Op == token.LSS || rb.Op == token.GTR) && isThreeWayCompare(p, cx.Fun) && exprStr(p.Fset, rb.X) == exprStr(p.Fset, cx) {
						a, b := cx.Args[0], cx.Args[1]
						op := rb.Op // result < 0  ⇔  a < b
						if mentionsIdent(a, c.rname) && !mentionsIdent(a, c.lname) {
							// Compare(key(r), key(l)): descending in the key
							a, b = b, a
							if op == token.LSS {
								op = token.GTR
							} else {
								op = token.LSS
							}
						}
						c.steps = append(c.steps, cmpStep{guardL: a, guardR: b, retL: a, retR: b, op: op, pos: st.Pos()})
						continue
					}
				}
			}
			if ok && cond.Op == token.NEQ && len(st.Body.List) == 1 {
				if ret, ok := st.Body.List[0].(*ast.ReturnStmt); ok && len(ret.Results) == 1 {
					step := cmpStep{guardL: subst(cond.X, local), guardR: subst(cond.Y, local), pos: st.Pos()}
					c.fillReturn(p, &step, ret.Results[0], local)
					c.steps = append(c.steps, step)
					continue
				}
			}
			// a condition on configuration (not on the elements) guarding further steps
			if mentionsIdent(st.Cond, c.lname) || mentionsIdent(st.Cond, c.rname) || mentionsEnvElems(st.Cond, local, c) {
				c.errorf(st.Pos(), "unrecognised comparison step: if %s", exprStr(p.Fset, st.Cond))
				continue
			}
			c.parseBlock(p, st.Body.List, local, false)
		case *ast.SwitchStmt:
			if st.Tag != nil || st.Init != nil {
				c.errorf(st.Pos(), "switch with a tag in comparator")
				continue
			}
			for _, cl := range st.Body.List {
				cc := cl.(*ast.CaseClause)
				if len(cc.Body) != 1 {
					c.errorf(cc.Pos(), "case with more than one statement in comparator")
					continue
				}
				ret, ok := cc.Body[0].(*ast.ReturnStmt)
				if !ok || len(ret.Results) != 1 {
					c.errorf(cc.Pos(), "case that does not return in comparator")
					continue
				}
				if cc.List == nil { // default
					step := cmpStep{pos: cc.Pos()}
					c.fillReturn(p, &step, ret.Results[0], env)
					c.steps = append(c.steps, step)
					continue
				}
				cond, ok := cc.List[0].(*ast.BinaryExpr)
				if len(cc.List) != 1 || !ok || cond.Op != token.NEQ {
					c.errorf(cc.Pos(), "unrecognised case condition in comparator")
					continue
				}
				step := cmpStep{guardL: subst(cond.X, env), guardR: subst(cond.Y, env), pos: cc.Pos()}
				c.fillReturn(p, &step, ret.Results[0], env)
				c.steps = append(c.steps, step)
			}
		case *ast.RangeStmt:
			// for _, key := range TABLE { if ka, kb := key(a), key(b); ka != kb { return ka < kb } }
			// with TABLE a package-level list of key functions: one step per entry
			entries := keyTableEntries(c.pkg, st.X)
			if entries == nil {
				entries = keyParamEntries(c, st.X)
			}
			kv, isIdent := st.Value.(*ast.Ident)
			if entries == nil || !isIdent {
				c.errorf(st.Pos(), "unsupported statement %T in comparator", s)
				continue
			}
			for _, ent := range entries {
				local := copyEnv(env)
				local[kv.Name] = ent
				c.parseBlock(p, st.Body.List, local, false)
			}
			c.afterTable = true
		case *ast.ReturnStmt:
			if len(st.Results) != 1 {
				c.errorf(st.Pos(), "return without a single result")
				continue
			}
			if id, ok := st.Results[0].(*ast.Ident); ok && id.Name == "false" && top && c.afterTable && len(c.steps) > 0 && i == len(stmts)-1 {
				// every key of the table compared equal: the elements are equivalent
				continue
			}
			step := cmpStep{pos: st.Pos()}
			c.fillReturn(p, &step, st.Results[0], env)
			c.steps = append(c.steps, step)
			if top && i != len(stmts)-1 {
				c.errorf(st.Pos(), "statements after the final return")
			}
		default:
			c.errorf(s.Pos(), "unsupported statement %T in comparator", s)
		}
	}
}

func (c *comparator) fillReturn(p *Program, step *cmpStep, e ast.Expr, env map[string]ast.Expr) {
	e = subst(e, env)
	switch x := e.(type) {
	case *ast.BinaryExpr:
		step.retL, step.retR, step.op = x.X, x.Y, x.Op
	case *ast.CallExpr:
		if len(x.Args) >= 2 {
			// cmp(l, r) or cmp(l, r, configuration…)
			step.delegate = exprStr(p.Fset, x.Fun)
			step.retL, step.retR = x.Args[0], x.Args[1]
			step.op = token.ILLEGAL
			return
		}
		c.errorf(e.Pos(), "return of a call that is not cmp(l, r)")
	case *ast.Ident:
		if x.Name == "false" || x.Name == "true" {
			c.viol = append(c.viol, "a step returns the constant "+x.Name+": elements that tie on the preceding keys are left unordered")
			return
		}
		c.errorf(e.Pos(), "unsupported return expression %s", exprStr(p.Fset, e))
	default:
		c.errorf(e.Pos(), "unsupported return expression %s", exprStr(p.Fset, e))
	}
}

func bindAssign(as *ast.AssignStmt, env map[string]ast.Expr) {
	if len(as.Lhs) == len(as.Rhs) {
		for i, l := range as.Lhs {
			if id, ok := l.(*ast.Ident); ok && id.Name != "_" {
				env[id.Name] = subst(as.Rhs[i], env)
			}
		}
		return
	}
	// v, _ := f(x): bind v to "f(x)#0"
	if len(as.Rhs) == 1 {
		for i, l := range as.Lhs {
			if id, ok := l.(*ast.Ident); ok && id.Name != "_" {
				env[id.Name] = &ast.IndexExpr{X: subst(as.Rhs[0], env), Index: &ast.BasicLit{Kind: token.INT, Value: fmt.Sprint(i)}}
			}
		}
	}
}

func copyEnv(env map[string]ast.Expr) map[string]ast.Expr {
	out := map[string]ast.Expr{}
	for k, v := range env {
		out[k] = v
	}
	return out
}

// subst replaces identifiers bound in env by their defining expressions.
func subst(e ast.Expr, env map[string]ast.Expr) ast.Expr {
	switch x := e.(type) {
	case *ast.Ident:
		if v, ok := env[x.Name]; ok {
			return v
		}
		return x
	case *ast.ParenExpr:
		return subst(x.X, env)
	case *ast.SelectorExpr:
		return &ast.SelectorExpr{X: subst(x.X, env), Sel: x.Sel}
	case *ast.IndexExpr:
		return &ast.IndexExpr{X: subst(x.X, env), Index: subst(x.Index, env)}
	case *ast.CallExpr:
		args := make([]ast.Expr, len(x.Args))
		for i, a := range x.Args {
			args[i] = subst(a, env)
		}
		fun := subst(x.Fun, env)
		// a key function bound to the loop variable of a key table: its body, with the
		// parameter replaced by the argument
		if fl, ok := fun.(*ast.FuncLit); ok && fl.Type.Params != nil && len(fl.Body.List) == 1 {
			var names []string
			for _, f := range fl.Type.Params.List {
				for _, n := range f.Names {
					names = append(names, n.Name)
				}
			}
			if ret, ok := fl.Body.List[0].(*ast.ReturnStmt); ok && len(ret.Results) == 1 && len(names) == len(args) && len(args) > 0 {
				bind := map[string]ast.Expr{}
				for i, n := range names {
					bind[n] = args[i]
				}
				return subst(ret.Results[0], bind)
			}
		}
		return &ast.CallExpr{Fun: fun, Args: args}
	case *ast.BinaryExpr:
		return &ast.BinaryExpr{X: subst(x.X, env), Op: x.Op, Y: subst(x.Y, env)}
	case *ast.UnaryExpr:
		return &ast.UnaryExpr{Op: x.Op, X: subst(x.X, env)}
	case *ast.StarExpr:
		return &ast.StarExpr{X: subst(x.X, env)}
	}
	return e
}

func mentionsIdent(e ast.Node, name string) bool {
	found := false
	ast.Inspect(e, func(n ast.Node) bool {
		if id, ok := n.(*ast.Ident); ok && id.Name == name {
			found = true
		}
		return !found
	})
	return found
}

func mentionsEnvElems(e ast.Expr, env map[string]ast.Expr, c *comparator) bool {
	s := subst(e, env)
	return mentionsIdent(s, c.lname) || mentionsIdent(s, c.rname)
}

// normKey renders e with occurrences of ident `from` replaced by "·" (the element slot).
func normKey(fset *token.FileSet, e ast.Expr, from string) string {
	if e == nil {
		return ""
	}
	r := renameIdent(e, from, "·")
	// the printer may break selectors of substituted sub-expressions ("x. Name"): keys are
	// compared as text, so normalise the spacing
	k := exprStr(fset, r)
	k = strings.ReplaceAll(k, ". ", ".")
	k = strings.ReplaceAll(k, " .", ".")
	k = strings.ReplaceAll(k, "( ", "(")
	k = strings.ReplaceAll(k, " )", ")")
	return k
}

func renameIdent(e ast.Expr, from, to string) ast.Expr {
	env := map[string]ast.Expr{from: &ast.Ident{Name: to}}
	return subst(e, env)
}

// check evaluates R1 on the parsed chain; returns violations (genuine shape errors) and
// undecided reasons (unrecognised forms).
func (c *comparator) check(p *Program) (viol []string, undecided []string) {
	undecided = append(undecided, c.errs...)
	viol = append(viol, c.viol...)
	if len(c.steps) == 0 && len(c.errs) == 0 {
		undecided = append(undecided, "no comparison step recognised")
	}
	for i, s := range c.steps {
		last := i == len(c.steps)-1
		if s.retL == nil || s.retR == nil {
			continue // unreadable return: already recorded in errs
		}
		rl, rr := normKey(p.Fset, s.retL, c.lname), normKey(p.Fset, s.retR, c.rname)
		if s.delegate != "" {
			if rl != rr {
				viol = append(viol, fmt.Sprintf("delegation %s(%s, %s) does not pass mirrored arguments", s.delegate, exprStr(p.Fset, s.retL), exprStr(p.Fset, s.retR)))
			}
			c.keysL = append(c.keysL, "→"+s.delegate+"("+rl+")")
			continue
		}
		if s.op != token.LSS && s.op != token.GTR {
			viol = append(viol, fmt.Sprintf("comparison uses %s; a strict order needs < or >", s.op))
		}
		if rl != rr {
			viol = append(viol, fmt.Sprintf("right operand %s is not the mirror image of left operand %s", exprStr(p.Fset, s.retR), exprStr(p.Fset, s.retL)))
		}
		if mentionsIdent(s.retL, c.rname) || mentionsIdent(s.retR, c.lname) {
			viol = append(viol, fmt.Sprintf("operands of %s mix both elements", exprStr(p.Fset, s.retL)))
		}
		if s.guardL != nil {
			gl, gr := normKey(p.Fset, s.guardL, c.lname), normKey(p.Fset, s.guardR, c.rname)
			if gl != gr {
				viol = append(viol, fmt.Sprintf("guard compares %s with %s, which is not its mirror image", exprStr(p.Fset, s.guardL), exprStr(p.Fset, s.guardR)))
			}
			if gl != rl {
				viol = append(viol, fmt.Sprintf("guard tests %s but the step orders by %s: elements that differ in the first and agree in the second compare as equal and the remaining tie-breaks are skipped (not a strict weak order)", gl, rl))
			}
		} else if !last {
			viol = append(viol, "unconditional return before the end of the chain")
		}
		c.keysL = append(c.keysL, rl)
	}
	if n := len(c.steps); n > 0 && c.steps[n-1].guardL != nil && !c.afterTable {
		undecided = append(undecided, "chain does not end in an unconditional return")
	}
	return
}

// ---------------------------------------------------------------------------

func (c *Check) comparatorRules() map[*ssa.Function]*comparator {
	p := c.P
	cmps := discoverComparators(p)
	parsed := map[*ssa.Function]*comparator{}
	for _, f := range cmps {
		cm := parseComparator(p, f)
		parsed[f] = cm
		viol, und := cm.check(p)
		key := "cmp:" + fnName(f)
		switch {
		case len(viol) > 0:
			c.bad("C08-R1", key, p.relFile(f.Pos()), "comparator "+fnName(f)+": "+strings.Join(viol, "; "))
		case len(und) > 0:
			c.undecided("C08-R1", key, p.relFile(f.Pos()), "comparator "+fnName(f)+" has a shape the checker cannot read: "+strings.Join(und, "; "))
		default:
			c.ok("C08-R1", key, p.relFile(f.Pos()), "comparator "+fnName(f)+" is a well-formed lexicographic chain", "every step's guard and ordering key coincide, operands are mirror images, only < and >: keys "+strings.Join(cm.keysL, " , "))
		}
	}
	c.Floor("C08-R1", 10)
	c.Extra["comparators"] = len(cmps)
	return parsed
}

// totality (R3a): comparators that order report entries, edges and tags must contain an
// identity key of what they order.
func (c *Check) totalityRules(parsed map[*ssa.Function]*comparator) {
	p := c.P
	// resolve delegation targets by name within the package / enclosing function
	resolve := func(cm *comparator, name string) *comparator {
		for f, other := range parsed {
			if other == cm {
				continue
			}
			if f.Name() == name || strings.HasSuffix(fnName(f), "."+name) {
				return other
			}
		}
		// a local closure variable: match by enclosing function and position is not
		// available here; fall back to closures of the same parent whose syntax is bound to name
		if par := cm.fn.Parent(); par != nil {
			for f, other := range parsed {
				if f.Parent() == par && closureBoundTo(p, f, name) {
					return other
				}
			}
		}
		return nil
	}
	var chainKeys func(cm *comparator, depth int) []string
	chainKeys = func(cm *comparator, depth int) []string {
		var out []string
		for _, k := range cm.keysL {
			if strings.HasPrefix(k, "→") && depth < 4 {
				name := k[len("→"):strings.LastIndex(k, "(")]
				arg := k[strings.LastIndex(k, "(")+1 : len(k)-1]
				var t *comparator
				if m := convMethodRE.FindStringSubmatch(name); m != nil {
					// T(x).Less: the method of the other sorter type the value is converted to
					for f, other := range parsed {
						if other != cm && strings.HasSuffix(fnName(f), "."+m[1]+")."+m[2]) {
							t = other
						}
					}
				}
				if strings.Contains(name, ".") {
					name = name[strings.LastIndex(name, ".")+1:]
				}
				if t == nil {
					t = resolve(cm, name)
				}
				if t != nil {
					for _, tk := range chainKeys(t, depth+1) {
						out = append(out, strings.ReplaceAll(tk, "·", arg))
					}
					continue
				}
				// dynamic delegation (s.less): union over every comparator it may call
				var dyn []*comparator
				for _, b := range cm.fn.Blocks {
					for _, ins := range b.Instrs {
						if call, ok := ins.(ssa.CallInstruction); ok && call.Common().StaticCallee() == nil && !call.Common().IsInvoke() {
							for _, g := range dynCallees(p.CG(), cm.fn, call) {
								if o := parsed[g]; o != nil {
									dyn = append(dyn, o)
								}
							}
						}
					}
				}
				if len(dyn) > 0 {
					out = append(out, "→dynamic")
					continue
				}
			}
			out = append(out, k)
		}
		return out
	}
	type want struct {
		fn       string
		what     string
		identity func(keys []string) string // "" if the chain contains an identity key
	}
	nodeIdentity := func(prefix string) func([]string) string {
		return func(keys []string) string {
			for _, k := range keys {
				if k == "fmt.Sprint("+prefix+".Info)" {
					return ""
				}
			}
			// or: every field of NodeInfo compared individually
			if ni := p.structsOf("internal/graph", "NodeInfo"); len(ni) == 1 {
				st := ni[0].Underlying().(*types.Struct)
				all := true
				for i := 0; i < st.NumFields(); i++ {
					found := false
					for _, k := range keys {
						if k == prefix+".Info."+st.Field(i).Name() {
							found = true
						}
					}
					all = all && found
				}
				if all {
					return ""
				}
			}
			return "no step orders by the node's whole Info (fmt.Sprint(" + prefix + ".Info)); nodes with equal displayed keys but different identity are unordered"
		}
	}
	wants := []want{
		{"graph.compareNodes", "report entries (nodes)", nodeIdentity("·")},
		{"(graph.tags).Less", "tags", func(keys []string) string {
			for _, k := range keys {
				if k == "·.Name" {
					return ""
				}
			}
			return "no step orders by Tag.Name (the key of the tag map, unique per node)"
		}},
		{"(graph.edgeList).Less", "edges", func(keys []string) string {
			src, dst := false, false
			for _, k := range keys {
				if k == "fmt.Sprint(·.Src.Info)" || k == "·.Src.Info" {
					src = true
				}
				if k == "fmt.Sprint(·.Dest.Info)" || k == "·.Dest.Info" {
					dst = true
				}
			}
			if src && dst {
				return ""
			}
			return "the chain ends on PrintableName of source and destination, which is not injective on nodes (it omits OrigName, StartLine, Objfile …): two equal-weight edges between such nodes are unordered; an identity key of Src and Dest (their whole Info) is needed"
		}},
	}
	elemOf := map[string]string{"graph.compareNodes": "*graph.Node", "(graph.tags).Less": "*graph.Tag", "(graph.edgeList).Less": "*graph.Edge"}
	for _, w := range wants {
		var cm *comparator
		for f, o := range parsed {
			if fnName(f) == w.fn {
				cm = o
			}
		}
		key := "total:" + w.fn
		if cm == nil {
			// renamed or rewritten (sort.Sort type ↔ sort.Slice closure): the one top-level
			// comparator over the same element type
			var cands []*comparator
			for f, o := range parsed {
				if comparatorElemType(f) == elemOf[w.fn] && !calledByOtherComparator(f, parsed) {
					cands = append(cands, o)
				}
			}
			if len(cands) == 1 {
				cm = cands[0]
			}
		}
		if cm == nil {
			c.undecided("C08-R3", key, "", "comparator "+w.fn+" not found among the discovered comparators")
			continue
		}
		keys := chainKeys(cm, 0)
		for i, k := range keys {
			keys[i] = expandKeyHelper(p, cm, elemRootRE.ReplaceAllString(k, "·"))
		}
		if why := w.identity(keys); why == "" {
			c.ok("C08-R3", key, p.relFile(cm.fn.Pos()), "the order of "+w.what+" is total", "chain "+strings.Join(keys, " , ")+" contains an identity key")
		} else {
			c.bad("C08-R3", key, p.relFile(cm.fn.Pos()), "the order of "+w.what+" ("+w.fn+") is not total: "+why+" [chain: "+strings.Join(keys, " , ")+"]")
		}
	}
	// fmt.Sprint(Info) is an identity key only while it prints every field: NodeInfo (and
	// the types of its exported fields) must not have String, Error, Format or GoString
	// methods, which fmt would call instead of dumping the fields.
	if ni := p.structsOf("internal/graph", "NodeInfo"); len(ni) == 1 {
		var hit []string
		seenT := map[types.Type]bool{}
		var scan func(t types.Type, path string)
		scan = func(t types.Type, path string) {
			if seenT[t] {
				return
			}
			seenT[t] = true
			// Sprint receives values (and reads fields of a non-addressable value), so only
			// value-receiver methods are found by fmt
			ms := types.NewMethodSet(t)
			for i := 0; i < ms.Len(); i++ {
				switch ms.At(i).Obj().Name() {
				case "String", "Error", "Format", "GoString":
					hit = append(hit, path+"."+ms.At(i).Obj().Name())
				}
			}
			if st, ok := t.Underlying().(*types.Struct); ok {
				for i := 0; i < st.NumFields(); i++ {
					if st.Field(i).Exported() {
						ft := st.Field(i).Type()
						if _, basic := ft.Underlying().(*types.Basic); !basic {
							scan(ft, path+"."+st.Field(i).Name())
						}
					}
				}
			}
		}
		scan(ni[0], "NodeInfo")
		if len(hit) == 0 {
			c.ok("C08-R3", "identity:Sprint(NodeInfo)", "", "fmt.Sprint of a NodeInfo prints every field", "neither NodeInfo nor the types of its exported fields have String/Error/Format/GoString methods")
		} else {
			c.bad("C08-R3", "identity:Sprint(NodeInfo)", "", "fmt.Sprint(NodeInfo) no longer prints every field because of the method "+strings.Join(dedup(hit), ", ")+": the last tie-break of the node and edge orders compares only what that method prints, so nodes that differ in the omitted fields (same name in two binaries) are left in map-iteration order")
		}
	}
	// slices filled from a map and ordered by a literal comparator: the chain must contain
	// the key that is unique per element (the map key the element was stored under)
	for _, site := range []struct{ rel, fn, slice, key, why string }{
		{"internal/report", "(*sourcePrinter).generate", "files", "files[·].fname", "sourcePrinter.files is keyed by file name and every sourceFile stores that key in fname"},
	} {
		f := p.Func(site.rel, site.fn)
		if f == nil {
			c.undecided("C08-R3", "total:"+site.fn, "", site.fn+" not found")
			continue
		}
		n := 0
		for _, b := range f.Blocks {
			for _, ins := range b.Instrs {
				call, ok := ins.(ssa.CallInstruction)
				if !ok || call.Common().StaticCallee() == nil || call.Common().StaticCallee().String() != "sort.Slice" {
					continue
				}
				fns, unknown := p.MG().funcValues(call.Common().Args[1], map[ssa.Value]bool{})
				if unknown {
					c.undecided("C08-R3", "total:"+site.fn, p.relFile(call.Pos()), "comparator passed to sort.Slice in "+site.fn+" cannot be resolved")
				}
				for _, g := range fns {
					cm := parsed[g]
					if cm == nil || !mentionsKeyVar(cm.keysL, site.slice) {
						continue
					}
					n++
					key := "total:" + fnName(g)
					has := false
					for _, k := range cm.keysL {
						if k == site.key {
							has = true
						}
					}
					if has {
						c.ok("C08-R3", key, p.relFile(g.Pos()), "order of "+site.slice+" in "+site.fn+" is total", "chain "+strings.Join(cm.keysL, " , ")+" contains "+site.key+" ("+site.why+")")
					} else {
						c.bad("C08-R3", key, p.relFile(g.Pos()), "order of "+site.slice+" in "+site.fn+" is not total: chain "+strings.Join(cm.keysL, " , ")+" lacks "+site.key+"; elements that tie are left in map iteration order ("+site.why+")")
					}
				}
			}
		}
		if n == 0 {
			c.undecided("C08-R3", "total:"+site.fn, "", "no sort.Slice over "+site.slice+" found in "+site.fn)
		}
	}

	// every node order offered by Nodes.Sort must end in compareNodes
	var sortFn *ssa.Function
	for f := range parsed {
		if f.Parent() != nil && fnName(f.Parent()) == "(graph.Nodes).Sort" {
			sortFn = f.Parent()
		}
	}
	if sortFn == nil {
		sortFn = p.Func("internal/graph", "Nodes.Sort")
	}
	if sortFn == nil {
		c.undecided("C08-R3", "total:Nodes.Sort", "", "closures of (graph.Nodes).Sort not found")
		return
	}
	var cl []*ssa.Function
	inCl := map[*ssa.Function]bool{}
	for f := range parsed {
		if f.Parent() == sortFn {
			cl = append(cl, f)
			inCl[f] = true
		}
	}
	// orders produced by a comparator factory that Sort calls (lessByKeys(k1, k2, …))
	for _, b := range sortFn.Blocks {
		for _, ins := range b.Instrs {
			call, ok := ins.(*ssa.Call)
			if !ok || call.Call.StaticCallee() == nil || !fnInModule(call.Call.StaticCallee()) {
				continue
			}
			if sig, ok := call.Type().Underlying().(*types.Signature); !ok || sig.Params().Len() != 2 || sig.Results().Len() != 1 {
				continue
			}
			fns, _ := p.MG().funcValues(call, map[ssa.Value]bool{})
			for _, g := range fns {
				if parsed[g] != nil && !inCl[g] {
					inCl[g] = true
					cl = append(cl, g)
				}
			}
		}
	}
	if len(cl) == 0 {
		c.undecided("C08-R3", "total:Nodes.Sort", "", "closures of (graph.Nodes).Sort not found")
		return
	}
	sortFns(cl)
	for _, f := range cl {
		cm := parsed[f]
		key := "total:" + fnName(f)
		last := ""
		if len(cm.keysL) > 0 {
			last = cm.keysL[len(cm.keysL)-1]
		}
		if last == "→compareNodes(·)" {
			c.ok("C08-R3", key, p.relFile(f.Pos()), "node order "+fnName(f)+" breaks remaining ties by node identity", "chain ends in compareNodes(l, r): "+strings.Join(cm.keysL, " , "))
		} else {
			c.bad("C08-R3", key, p.relFile(f.Pos()), "node order "+fnName(f)+" does not end in compareNodes(l, r): entries with equal keys are unordered [chain: "+strings.Join(cm.keysL, " , ")+"]")
		}
	}
	// any other place that orders a list of graph nodes needs a total order too (the node
	// lists come out of maps): a comparator handed to sort.Slice & co. over []*graph.Node must
	// end in compareNodes or compare the whole Info
	adhoc := 0
	for f := range p.AllFns {
		if !fnInModule(f) || f.Blocks == nil {
			continue
		}
		for _, b := range f.Blocks {
			for _, ins := range b.Instrs {
				call, ok := ins.(ssa.CallInstruction)
				if !ok || call.Common().StaticCallee() == nil || len(call.Common().Args) < 2 {
					continue
				}
				sortName := call.Common().StaticCallee().String()
				if i := strings.Index(sortName, "["); i > 0 {
					sortName = sortName[:i]
				}
				switch sortName {
				case "sort.Slice", "sort.SliceStable", "slices.SortFunc", "slices.SortStableFunc":
				default:
					continue
				}
				x := call.Common().Args[0]
				if mi, ok := x.(*ssa.MakeInterface); ok {
					x = mi.X
				}
				sl, ok := x.Type().Underlying().(*types.Slice)
				if !ok || structName(sl.Elem()) != "graph.Node" {
					continue
				}
				adhoc++
				key := fmt.Sprintf("total:adhoc:%s#%d", fnName(f), adhoc)
				fns, unknown := p.MG().funcValues(call.Common().Args[1], map[ssa.Value]bool{})
				total := !unknown && len(fns) > 0
				chain := ""
				for _, g := range fns {
					cm := parsed[g]
					if cm == nil {
						total = false
						continue
					}
					chain = strings.Join(cm.keysL, " , ")
					has := false
					for _, k := range cm.keysL {
						if k == "→compareNodes(·)" || (strings.HasPrefix(k, "fmt.Sprint(") && strings.HasSuffix(k, ".Info)")) {
							has = true
						}
					}
					total = total && has
				}
				if total {
					c.ok("C08-R3", key, p.relFile(call.Pos()), "the ad-hoc node order in "+fnName(f)+" is total", "chain "+chain+" ends in the node identity")
				} else {
					c.bad("C08-R3", key, p.relFile(call.Pos()), fnName(f)+" orders a list of graph nodes with a comparator that has no identity key [chain: "+chain+"]: nodes that tie (two lines of one inlined location share an address) stay in the order of the map they were collected from, and the report changes from run to run")
				}
			}
		}
	}
	c.Extra["adhoc_node_orders"] = adhoc
	c.Floor("C08-R3", 8)
}

// closureBoundTo: is closure f the value of a `name := func…` definition in its parent?
func closureBoundTo(p *Program, f *ssa.Function, name string) bool {
	lit, ok := f.Syntax().(*ast.FuncLit)
	if !ok || f.Parent() == nil {
		return false
	}
	found := false
	ast.Inspect(f.Parent().Syntax(), func(n ast.Node) bool {
		if as, ok := n.(*ast.AssignStmt); ok {
			for i, r := range as.Rhs {
				if r == lit && i < len(as.Lhs) {
					if id, ok := as.Lhs[i].(*ast.Ident); ok && id.Name == name {
						found = true
					}
				}
			}
		}
		return !found
	})
	return found
}

func sortedKeys(m map[string]bool) []string {
	var out []string
	for k := range m {
		out = append(out, k)
	}
	sort.Strings(out)
	return out
}

func mentionsKeyVar(keys []string, v string) bool {
	for _, k := range keys {
		if strings.HasPrefix(k, v+"[") {
			return true
		}
	}
	return false
}

// elemRootRE: the expression that selects the compared element in an index-based comparator
// (`t.t[·]`, `el[·]`): replaced by the element itself so that keys do not depend on the names
// of the slice and of the receiver.
var elemRootRE = regexp.MustCompile(`[A-Za-z_][A-Za-z0-9_.]*\[·\]`)

// comparatorElemType: the type of the elements f compares: its parameter type, or for
// (i, j int) comparators the element type of the slice indexed by the first parameter.
func comparatorElemType(f *ssa.Function) string {
	params := f.Params
	if f.Signature.Recv() != nil && len(params) > 0 {
		params = params[1:]
	}
	if len(params) < 2 {
		return ""
	}
	if bt, ok := params[0].Type().Underlying().(*types.Basic); !ok || bt.Info()&types.IsInteger == 0 {
		return typeShort(params[0].Type())
	}
	for _, b := range f.Blocks {
		for _, ins := range b.Instrs {
			if ia, ok := ins.(*ssa.IndexAddr); ok && ia.Index == ssa.Value(params[0]) {
				if et := elemTypeOf(ia.X.Type()); et != nil {
					return typeShort(et)
				}
			}
		}
	}
	return ""
}

// calledByOtherComparator: f is a tie-break helper of another discovered comparator.
func calledByOtherComparator(f *ssa.Function, parsed map[*ssa.Function]*comparator) bool {
	for g := range parsed {
		if g == f {
			continue
		}
		for _, b := range g.Blocks {
			for _, ins := range b.Instrs {
				if call, ok := ins.(ssa.CallInstruction); ok && call.Common().StaticCallee() == f {
					return true
				}
			}
		}
	}
	return false
}

var keyCallRE = regexp.MustCompile(`^([A-Za-z_][A-Za-z0-9_]*)\((.*)\)$`)

// expandKeyHelper: a key of the form h(arg) where h is a one-line function of the comparator's
// package (`func h(x T) K { return E }`) is replaced by E with x standing for arg, so that a
// tie-break key computed by a small named helper is seen for what it is.
func expandKeyHelper(p *Program, cm *comparator, key string) string {
	m := keyCallRE.FindStringSubmatch(key)
	if m == nil || cm.pkg == nil {
		return key
	}
	for _, file := range cm.pkg.Syntax {
		for _, d := range file.Decls {
			fd, ok := d.(*ast.FuncDecl)
			if !ok || fd.Recv != nil || fd.Name.Name != m[1] || fd.Body == nil || len(fd.Body.List) != 1 {
				continue
			}
			ret, ok := fd.Body.List[0].(*ast.ReturnStmt)
			if !ok || len(ret.Results) != 1 || fd.Type.Params == nil || len(fd.Type.Params.List) != 1 || len(fd.Type.Params.List[0].Names) != 1 {
				continue
			}
			param := fd.Type.Params.List[0].Names[0].Name
			return strings.ReplaceAll(normKey(p.Fset, ret.Results[0], param), "·", m[2])
		}
	}
	return key
}

var convMethodRE = regexp.MustCompile(`^(\w+)\(\w+\)\.(\w+)$`)

// keyTableEntries: x names a package-level list (array or slice literal) of key functions;
// returns the entries as function literals (named functions are replaced by a literal with
// their body), nil when x is something else.
func keyTableEntries(pkg *packages.Package, x ast.Expr) []ast.Expr {
	id, ok := x.(*ast.Ident)
	if !ok || pkg == nil {
		return nil
	}
	obj, ok := pkg.TypesInfo.Uses[id].(*types.Var)
	if !ok || obj.Parent() != pkg.Types.Scope() {
		return nil
	}
	var lit *ast.CompositeLit
	funcs := map[string]*ast.FuncDecl{}
	for _, file := range pkg.Syntax {
		for _, d := range file.Decls {
			switch dd := d.(type) {
			case *ast.FuncDecl:
				if dd.Recv == nil {
					funcs[dd.Name.Name] = dd
				}
			case *ast.GenDecl:
				for _, sp := range dd.Specs {
					vs, ok := sp.(*ast.ValueSpec)
					if !ok {
						continue
					}
					for i, n := range vs.Names {
						if pkg.TypesInfo.Defs[n] == obj && i < len(vs.Values) {
							lit, _ = vs.Values[i].(*ast.CompositeLit)
						}
					}
				}
			}
		}
	}
	if lit == nil || len(lit.Elts) == 0 {
		return nil
	}
	var out []ast.Expr
	for _, e := range lit.Elts {
		if kv, ok := e.(*ast.KeyValueExpr); ok {
			e = kv.Value
		}
		switch v := e.(type) {
		case *ast.FuncLit:
			out = append(out, v)
		case *ast.Ident:
			fd := funcs[v.Name]
			if fd == nil || fd.Body == nil {
				return nil
			}
			out = append(out, &ast.FuncLit{Type: fd.Type, Body: fd.Body})
		default:
			return nil
		}
	}
	return out
}

func isZeroLit(e ast.Expr) bool {
	b, ok := e.(*ast.BasicLit)
	return ok && b.Kind == token.INT && b.Value == "0"
}

// isThreeWayCompare: cmp.Compare, strings.Compare, bytes.Compare, or a method Compare.
func isThreeWayCompare(p *Program, fun ast.Expr) bool {
	switch exprStr(p.Fset, fun) {
	case "cmp.Compare", "strings.Compare", "bytes.Compare":
		return true
	}
	return false
}

// keyParamEntries: x names a (variadic) parameter of the function that encloses the
// comparator literal (a comparator factory: func lessByKeys(keys ...keyFn) func(l, r) bool);
// the key functions handed to that parameter at every call of the factory in its package.
func keyParamEntries(c *comparator, x ast.Expr) []ast.Expr {
	id, ok := x.(*ast.Ident)
	par := c.fn.Parent()
	if !ok || par == nil || c.pkg == nil {
		return nil
	}
	fd, ok := par.Syntax().(*ast.FuncDecl)
	if !ok || fd.Recv != nil {
		return nil
	}
	pidx, n := -1, 0
	for _, f := range fd.Type.Params.List {
		for _, nm := range f.Names {
			if nm.Name == id.Name {
				pidx = n
			}
			n++
		}
	}
	if pidx < 0 {
		return nil
	}
	funcs := map[string]*ast.FuncDecl{}
	for _, file := range c.pkg.Syntax {
		for _, d := range file.Decls {
			if dd, ok := d.(*ast.FuncDecl); ok && dd.Recv == nil {
				funcs[dd.Name.Name] = dd
			}
		}
	}
	var out []ast.Expr
	seen := map[string]bool{}
	bad := false
	for _, file := range c.pkg.Syntax {
		ast.Inspect(file, func(nd ast.Node) bool {
			call, ok := nd.(*ast.CallExpr)
			if !ok {
				return true
			}
			fid, ok := call.Fun.(*ast.Ident)
			if !ok || fid.Name != fd.Name.Name {
				return true
			}
			for i, a := range call.Args {
				if i < pidx {
					continue
				}
				switch v := a.(type) {
				case *ast.FuncLit:
					out = append(out, v)
				case *ast.Ident:
					if seen[v.Name] {
						continue
					}
					if kd := funcs[v.Name]; kd != nil && kd.Body != nil {
						seen[v.Name] = true
						out = append(out, &ast.FuncLit{Type: kd.Type, Body: kd.Body})
						continue
					}
					// a key function defined as a local literal: name := func(l, r T) int { … }
					var lit *ast.FuncLit
					ast.Inspect(file, func(n2 ast.Node) bool {
						if as, ok := n2.(*ast.AssignStmt); ok && len(as.Lhs) == len(as.Rhs) {
							for k, l := range as.Lhs {
								if li, ok := l.(*ast.Ident); ok && li.Name == v.Name {
									if fl, ok := as.Rhs[k].(*ast.FuncLit); ok {
										lit = fl
									}
								}
							}
						}
						return true
					})
					if lit == nil {
						bad = true
						continue
					}
					seen[v.Name] = true
					out = append(out, lit)
				default:
					bad = true
				}
			}
			return true
		})
	}
	if bad || len(out) == 0 {
		return nil
	}
	return out
}
