package main

import (
	"fmt"
	"go/ast"
	"go/constant"
	"go/token"
	"go/types"
	"math"
	"strings"
	"unicode/utf8"

	"golang.org/x/tools/go/ssa"
)

func init() { register("C15", true, runC15) }

type unitDef struct {
	name    string
	aliases []string
	factor  float64
	pos     token.Pos
}

func runC15(c *Check) {
	c.Explanation = "Decides the unit-table part of C15 (the float arithmetic is out of static reach): the table of known units is evaluated from its literal and checked for well-formedness — aliases are pairwise distinct across all families (no cross-family or ambiguous conversion), every alias survives the normalisation that sniffUnit applies before the lookup (so no listed spelling is dead), every canonical name that pprof prints resolves back to its own unit, factors are positive and strictly increasing inside a family, each factor equals the one its long alias implies (binary steps for bytes, SI steps for time and GCU, 3600 s per hour), the default unit of a family is one of its units with the same factor (R1-R4); the special target names handled by convertUnit ('minimum', 'auto') are also in Scale's list of units that print no suffix (R5). The normalisation is not re-implemented blindly: its parameters (length measure, threshold, suffix) are extracted from sniffUnit's code. Also: convertUnit returns v/U.Factor together with U's name for the same U (R6), CommonValueType compares against the running minimum (R7), differing units are compatible only within one family (R8), Percentage formats only absolute values (R9). Also: every column's factor slot is assigned (R10), labels are formatted without a float-to-integer detour (R11), selectOutputUnit treats all values alike with respect to divide_by (R12). Round-I additions: selectOutputUnit reads node weights through FlatValue/CumValue; a sign stripped in place by Scale is restored on every return; findByAlias compares only with entries of the aliases lists. Not decided: rounding, monotonicity, float behaviour at the extremes."
	p := c.P
	pk := p.Pkg("internal/measurement")
	if pk == nil {
		c.undecided("C15-R1", "anchor:pkg", "", "package measurement not loaded")
		return
	}
	var lit *ast.CompositeLit
	for _, f := range pk.Syntax {
		ast.Inspect(f, func(n ast.Node) bool {
			vs, ok := n.(*ast.ValueSpec)
			if ok && len(vs.Names) == 1 && vs.Names[0].Name == "UnitTypes" && len(vs.Values) == 1 {
				lit, _ = vs.Values[0].(*ast.CompositeLit)
			}
			return true
		})
	}
	if lit == nil {
		c.undecided("C15-R1", "anchor:UnitTypes", "", "UnitTypes literal not found")
		return
	}
	// resolveLit: a composite literal, directly or as the initialiser of the package-level
	// variable the expression names (tables built from named parts)
	resolveLit := func(e ast.Expr) *ast.CompositeLit {
		for i := 0; i < 3 && e != nil; i++ {
			switch x := e.(type) {
			case *ast.CompositeLit:
				return x
			case *ast.UnaryExpr:
				e = x.X // &T{…}
			case *ast.Ident:
				var next ast.Expr
				for _, f := range pk.Syntax {
					for _, d := range f.Decls {
						gd, ok := d.(*ast.GenDecl)
						if !ok {
							continue
						}
						for _, sp := range gd.Specs {
							if vs, ok := sp.(*ast.ValueSpec); ok {
								for k, nm := range vs.Names {
									if nm.Name == x.Name && pk.TypesInfo.Defs[nm] == pk.TypesInfo.Uses[x] && k < len(vs.Values) {
										next = vs.Values[k]
									}
								}
							}
						}
					}
				}
				e = next
			default:
				return nil
			}
		}
		return nil
	}
	evalFloat := func(e ast.Expr) (float64, bool) {
		tv, ok := pk.TypesInfo.Types[e]
		if !ok || tv.Value == nil {
			return 0, false
		}
		f, _ := constant.Float64Val(constant.ToFloat(tv.Value))
		return f, true
	}
	parseUnit := func(e ast.Expr) (unitDef, bool) {
		cl := resolveLit(e)
		if cl == nil {
			return unitDef{}, false
		}
		u := unitDef{pos: cl.Pos()}
		get := func(i int, name string) ast.Expr {
			for _, el := range cl.Elts {
				if kv, ok := el.(*ast.KeyValueExpr); ok {
					if id, ok := kv.Key.(*ast.Ident); ok && id.Name == name {
						return kv.Value
					}
				}
			}
			if i < len(cl.Elts) {
				if _, isKV := cl.Elts[i].(*ast.KeyValueExpr); !isKV {
					return cl.Elts[i]
				}
			}
			return nil
		}
		n, ok1 := litString(get(0, "CanonicalName"))
		f, ok2 := evalFloat(get(2, "Factor"))
		if !ok1 || !ok2 {
			return u, false
		}
		u.name, u.factor = n, f
		if al := resolveLit(get(1, "aliases")); al != nil {
			for _, a := range al.Elts {
				if s, ok := litString(a); ok {
					u.aliases = append(u.aliases, s)
				}
			}
		}
		return u, true
	}
	type family struct {
		units []unitDef
		def   unitDef
	}
	var fams []family
	for _, fe := range lit.Elts {
		fl := resolveLit(fe)
		if fl == nil {
			continue
		}
		var fam family
		for _, el := range fl.Elts {
			kv, ok := el.(*ast.KeyValueExpr)
			if !ok {
				continue
			}
			switch exprStr(p.Fset, kv.Key) {
			case "Units":
				if ul := resolveLit(kv.Value); ul != nil {
					for _, ue := range ul.Elts {
						if u, ok := parseUnit(ue); ok {
							fam.units = append(fam.units, u)
						} else {
							c.undecided("C15-R1", "parse:"+exprStr(p.Fset, ue), p.relFile(ue.Pos()), "unit literal not evaluable")
						}
					}
				}
			case "DefaultUnit":
				fam.def, _ = parseUnit(kv.Value)
			}
		}
		fams = append(fams, fam)
	}
	if len(fams) < 3 {
		c.undecided("C15-R1", "anchor:families", "", fmt.Sprintf("%d unit families parsed", len(fams)))
		return
	}

	// normalisation parameters from sniffUnit
	norm, normDesc := c.sniffNormalisation()
	if norm == nil {
		return
	}
	c.Extra["normalisation"] = normDesc
	pos := p.relFile(lit.Pos())

	// R1: aliases distinct across all families; fixed points of the normalisation
	owner := map[string]string{}
	for fi, fam := range fams {
		for _, u := range fam.units {
			for _, a := range u.aliases {
				key := "alias:" + a
				if other, dup := owner[a]; dup {
					c.bad("C15-R1", key, p.relFile(u.pos), fmt.Sprintf("alias %q is listed for both %s and %s: the conversion depends on table order, or crosses unit families", a, other, u.name))
					continue
				}
				owner[a] = fmt.Sprintf("%s (family %d)", u.name, fi)
				if n := norm(a); n != a {
					c.bad("C15-R1", key, p.relFile(u.pos), fmt.Sprintf("alias %q of unit %s can never match: sniffUnit normalises an input %q to %q before the lookup (%s), so values given in that unit are treated as having an unknown unit", a, u.name, a, n, normDesc))
					continue
				}
				c.ok("C15-R1", key, p.relFile(u.pos), fmt.Sprintf("alias %q → %s", a, u.name), "unique across all families and a fixed point of sniffUnit's normalisation")
			}
		}
	}
	c.Floor("C15-R1", 30)

	// R2: canonical names distinct and re-readable
	canon := map[string]bool{}
	for _, fam := range fams {
		for _, u := range fam.units {
			key := "canonical:" + u.name
			if canon[u.name] {
				c.bad("C15-R2", key, p.relFile(u.pos), "canonical name "+u.name+" is used by two units")
				continue
			}
			canon[u.name] = true
			n := norm(u.name)
			found := false
			for _, a := range u.aliases {
				if a == n {
					found = true
				}
			}
			if found {
				c.ok("C15-R2", key, p.relFile(u.pos), "printed unit "+u.name+" reads back as itself", fmt.Sprintf("normalises to %q, an alias of the same unit", n))
			} else {
				c.bad("C15-R2", key, p.relFile(u.pos), fmt.Sprintf("pprof prints values in %s, but reading that unit back (normalised to %q) does not find it: the value is then treated as having an unknown unit and is not converted", u.name, n))
			}
		}
	}

	// R3: factors
	for fi, fam := range fams {
		prev := 0.0
		for _, u := range fam.units {
			key := "factor:" + u.name
			switch {
			case !(u.factor > 0) || math.IsInf(u.factor, 0):
				c.bad("C15-R3", key, p.relFile(u.pos), fmt.Sprintf("unit %s has non-positive factor %g", u.name, u.factor))
			case u.factor <= prev:
				c.bad("C15-R3", key, p.relFile(u.pos), fmt.Sprintf("unit %s (factor %g) does not exceed the preceding unit's factor %g: auto-scaling picks the wrong unit", u.name, u.factor, prev))
			default:
				if want, why, ok := impliedFactor(u, fam.units); ok && !closeEnough(want, u.factor) {
					c.bad("C15-R3", key, p.relFile(u.pos), fmt.Sprintf("unit %s has factor %g but its name implies %g (%s)", u.name, u.factor, want, why))
				} else if ok {
					c.ok("C15-R3", key, p.relFile(u.pos), fmt.Sprintf("unit %s factor %g", u.name, u.factor), "positive, above the preceding unit, and equal to the factor implied by its name ("+why+")")
				} else {
					c.ok("C15-R3", key, p.relFile(u.pos), fmt.Sprintf("unit %s factor %g", u.name, u.factor), "positive and above the preceding unit (base unit of its family)")
				}
			}
			prev = u.factor
		}
		key := fmt.Sprintf("default:%d:%s", fi, fam.def.name)
		okDef := false
		for _, u := range fam.units {
			if u.name == fam.def.name && u.factor == fam.def.factor {
				okDef = true
			}
		}
		if okDef {
			c.ok("C15-R3", key, pos, "default unit "+fam.def.name, "is a unit of its family with the same factor")
		} else {
			c.bad("C15-R3", key, pos, fmt.Sprintf("default unit %s (factor %g) is not a unit of its own family with that factor", fam.def.name, fam.def.factor))
		}
	}
	c.Floor("C15-R3", 20)

	// R5: special target names: the string constants convertUnit compares its target-unit
	// parameter with must all be known to Scale (or a helper it calls) as names that are not
	// units, so that a value of unknown unit is not printed with "auto"/"minimum" as suffix
	special := map[string]bool{}
	skip := map[string]bool{}
	if cu := p.Func("internal/measurement", "UnitType.convertUnit"); cu != nil && len(cu.Params) >= 4 {
		target := cu.Params[3]
		for _, g := range withHelpers(cu, 1) {
			for _, b := range g.Blocks {
				for _, ins := range b.Instrs {
					cmp, ok := ins.(*ssa.BinOp)
					if !ok || cmp.Op != token.EQL {
						continue
					}
					for _, pair := range [][2]ssa.Value{{cmp.X, cmp.Y}, {cmp.Y, cmp.X}} {
						if pair[0] == ssa.Value(target) {
							if k, ok := constString(pair[1]); ok && k != "" {
								special[k] = true
							}
						}
					}
				}
			}
		}
	}
	if sc := p.Func("internal/measurement", "Scale"); sc != nil {
		for _, g := range withHelpers(sc, 2) {
			if g.Name() == "convertUnit" {
				continue
			}
			for _, b := range g.Blocks {
				for _, ins := range b.Instrs {
					var ops []*ssa.Value
					for _, op := range ins.Operands(ops) {
						if op == nil || *op == nil {
							continue
						}
						if k, ok := constString(*op); ok {
							skip[k] = true
						}
						// a package-level table of such names (map or slice filled by the
						// package initialiser)
						if gl, ok := (*op).(*ssa.Global); ok && fnPkgPath(g) == gl.Pkg.Pkg.Path() {
							for _, k := range stringsStoredInGlobal(p, gl) {
								skip[k] = true
							}
						}
					}
				}
			}
		}
	}
	if len(special) == 0 {
		c.undecided("C15-R5", "special", pos, "no special target unit names found in convertUnit")
	}
	for _, s := range sortedBoolKeys(special) {
		if skip[s] {
			c.ok("C15-R5", "special:"+s, pos, "target mode "+s, "handled by convertUnit and known to Scale as a name that is not a unit")
		} else {
			c.bad("C15-R5", "special:"+s, pos, "target mode "+s+" is handled by convertUnit but Scale would print it as a unit suffix for values of unknown unit")
		}
	}
	c.valueUnitPairing()
	c.runningMinimum()
	c.sameFamily()
	c.absolutePercentage()
	c.factorListFilledPerColumn("C15-R10")
	c.labelWithoutIntegerDetour()
	c.outputUnitFromDisplayedValues()
	c.unitFromDisplayedNodeValues()
	c.signRestoredOnEveryReturn()
	c.aliasMatchesAliasesOnly()
	c.minimumSeededUnset()
	// harmonising keeps each profile's totals: the factor is computed from the profile's own
	// unit, read before it is overwritten with the common one (shared with C07-R9)
	c.relabel(c.c07H, "C07-R9", "C15-R15", nil)
}

// R8: two value types with different units are compatible only when one and the same
// unit family recognises both units.  In compatibleValueTypes the successful return for
// differing units must be dominated by two sniffUnit calls on the same family value, one
// for each operand's unit; testing each unit for being known to *some* family would let
// bytes and milliseconds be harmonised.
func (c *Check) sameFamily() {
	p := c.P
	f := c.anchorFn("C15-R8", "internal/measurement", "compatibleValueTypes")
	if f == nil {
		return
	}
	type sniff struct {
		call *ssa.Call
		recv ssa.Value
		par  *ssa.Parameter
	}
	pos := p.relFile(f.Pos())
	okPair := false
	// the family test may be written in compatibleValueTypes or in a helper that receives the
	// two unit names
	for _, g := range withHelpers(f, 2) {
		var sniffs []sniff
		for _, b := range g.Blocks {
			for _, ins := range b.Instrs {
				call, ok := ins.(*ssa.Call)
				if !ok || call.Call.StaticCallee() == nil || call.Call.StaticCallee().Name() != "sniffUnit" || len(call.Call.Args) != 2 {
					continue
				}
				recv := call.Call.Args[0]
				if ld, ok := recv.(*ssa.UnOp); ok && ld.Op == token.MUL {
					recv = ld.X
				}
				var par *ssa.Parameter
				if sp, ok := call.Call.Args[1].(*ssa.Parameter); ok && g != f {
					par = sp // a unit name handed to the helper
				}
				if ld, ok := call.Call.Args[1].(*ssa.UnOp); ok && ld.Op == token.MUL {
					if fa, ok := ld.X.(*ssa.FieldAddr); ok {
						if _, F := fieldOf(fa.X.Type(), fa.Field); F == "Unit" {
							par, _ = fa.X.(*ssa.Parameter)
						}
					}
				}
				sniffs = append(sniffs, sniff{call, recv, par})
			}
		}
		for _, a := range sniffs {
			for _, b := range sniffs {
				if a.call == b.call || a.par == nil || b.par == nil || a.par == b.par || a.recv != b.recv {
					continue
				}
				// a successful return dominated by both tests
				for _, blk := range g.Blocks {
					ret, ok := blk.Instrs[len(blk.Instrs)-1].(*ssa.Return)
					if !ok || len(ret.Results) != 1 {
						continue
					}
					if k, ok := ret.Results[0].(*ssa.Const); ok && k.Value != nil && constant.BoolVal(k.Value) &&
						a.call.Block().Dominates(blk) && b.call.Block().Dominates(blk) {
						okPair = true
						pos = p.relFile(ret.Pos())
					}
				}
			}
		}
	}
	if okPair {
		c.ok("C15-R8", "same-family", pos, "differing units are compatible only within one family", "the successful return is dominated by sniffUnit tests of both operands' units on the same family value")
	} else {
		c.bad("C15-R8", "same-family", pos, "compatibleValueTypes no longer tests both units against the same unit family: units of different families (bytes and milliseconds) are declared compatible and harmonisation relabels one profile's values with the other's unit")
	}
}

// R9: percentages are computed from absolute ratios.  Every number formatted by
// Percentage is non-negative by construction (math.Abs, constants >= 0 and products,
// quotients and sums of such values).
func (c *Check) absolutePercentage() {
	p := c.P
	f := c.anchorFn("C15-R9", "internal/measurement", "Percentage")
	if f == nil {
		return
	}
	var nonNeg func(v ssa.Value, seen map[ssa.Value]bool) bool
	nonNeg = func(v ssa.Value, seen map[ssa.Value]bool) bool {
		if seen[v] {
			return true
		}
		seen[v] = true
		switch x := v.(type) {
		case *ssa.Const:
			return x.Value != nil && constant.Sign(x.Value) >= 0
		case *ssa.Call:
			if callee := x.Call.StaticCallee(); callee != nil && callee.String() == "math.Abs" {
				return true
			}
			// a helper of the package that computes the ratio: every value it returns
			if h := x.Call.StaticCallee(); h != nil && fnPkgPath(h) == fnPkgPath(f) && len(h.Blocks) > 0 && h.Signature.Results().Len() == 1 {
				n := 0
				for _, hb := range h.Blocks {
					if ret, ok := hb.Instrs[len(hb.Instrs)-1].(*ssa.Return); ok {
						n++
						if !nonNeg(ret.Results[0], seen) {
							return false
						}
					}
				}
				return n > 0
			}
		case *ssa.BinOp:
			switch x.Op {
			case token.MUL, token.QUO, token.ADD:
				return nonNeg(x.X, seen) && nonNeg(x.Y, seen)
			}
		case *ssa.Phi:
			for _, e := range x.Edges {
				if !nonNeg(e, seen) {
					return false
				}
			}
			return true
		case *ssa.Convert:
			return nonNeg(x.X, seen)
		case *ssa.MakeInterface:
			return nonNeg(x.X, seen)
		case *ssa.Parameter:
			// the formatting may be a helper: the ratio handed to it at every call
			fn := x.Parent()
			calls, asValue := directCallSites(p, fn)
			if asValue || len(calls) == 0 {
				return false
			}
			for i, q := range fn.Params {
				if q != x {
					continue
				}
				for _, call := range calls {
					if i >= len(call.Common().Args) || !nonNeg(call.Common().Args[i], seen) {
						return false
					}
				}
				return true
			}
		}
		return false
	}
	n := 0
	for _, b := range helperBlocks(f, 2) {
		for _, ins := range b.Instrs {
			call, ok := ins.(*ssa.Call)
			if !ok || call.Call.StaticCallee() == nil || call.Call.StaticCallee().String() != "fmt.Sprintf" {
				continue
			}
			for _, a := range variadicValues(call.Call.Args[1]) {
				if a == nil {
					continue
				}
				if bt, ok := a.Type().Underlying().(*types.Basic); !ok || bt.Info()&types.IsFloat == 0 {
					continue
				}
				n++
				key := "abs-percentage"
				if nonNeg(a, map[ssa.Value]bool{}) {
					c.ok("C15-R9", key, p.relFile(call.Pos()), "the ratio printed by Percentage is an absolute value", "built only from math.Abs, non-negative constants and their products/quotients")
				} else {
					c.bad("C15-R9", key, p.relFile(call.Pos()), "Percentage formats a ratio that is not an absolute value: a value and total of opposite sign (diff reports) print a negative percentage")
				}
			}
		}
	}
	if n == 0 {
		c.undecided("C15-R9", "abs-percentage", p.relFile(f.Pos()), "no formatted ratio found in Percentage")
	}
}

// addrPath describes an address as root value + field path, so two separately emitted
// FieldAddr chains for the same place compare equal (go/ssa does no CSE).
func addrPath(v ssa.Value) (ssa.Value, string) {
	path := ""
	for {
		switch x := v.(type) {
		case *ssa.FieldAddr:
			_, f := fieldOf(x.X.Type(), x.Field)
			path = "." + f + path
			v = x.X
			continue
		case *ssa.IndexAddr:
			// element of a slice or array: the same element when the index is the same value
			path = "[" + x.Index.Name() + "]" + path
			v = x.X
			continue
		case *ssa.UnOp:
			if x.Op == token.MUL {
				// pointer loaded from a place: keep going only for plain local cells
				if vals, ok := cellValues(x.X); ok && len(vals) == 1 {
					v = vals[0]
					continue
				}
				// a slice header or pointer read from a field: two reads of the same field of the
				// same object denote the same place (the pairing rules only compare reads made in
				// one loop iteration)
				switch x.X.(type) {
				case *ssa.FieldAddr, *ssa.IndexAddr:
					path = "*" + path
					v = x.X
					continue
				}
			}
		}
		return v, path
	}
}

// unitFieldLoad: v loads field F of a measurement.Unit; returns the unit's place.
func unitFieldLoad(v ssa.Value, F string) (ssa.Value, string, bool) {
	ld, ok := v.(*ssa.UnOp)
	if !ok || ld.Op != token.MUL {
		return nil, "", false
	}
	fa, ok := ld.X.(*ssa.FieldAddr)
	if !ok {
		return nil, "", false
	}
	if T, f := fieldOf(fa.X.Type(), fa.Field); T != "measurement.Unit" || f != F {
		return nil, "", false
	}
	r, p := addrPath(fa.X)
	return r, p, true
}

// R6: a converted value is always returned together with the name of the unit it was
// divided by.  Every return of convertUnit that names a unit U's CanonicalName returns
// v / U.Factor for the same U (or passes on both results of autoScale), and v is the input
// multiplied by the source unit's factor; autoScale's result pair is selected together.
func (c *Check) valueUnitPairing() {
	p := c.P
	f := c.anchorFn("C15-R6", "internal/measurement", "UnitType.convertUnit")
	if f == nil {
		return
	}
	n := 0
	for _, b := range f.Blocks {
		ret, ok := b.Instrs[len(b.Instrs)-1].(*ssa.Return)
		if !ok || len(ret.Results) != 3 {
			continue
		}
		if k, ok := ret.Results[2].(*ssa.Const); ok && k.Value != nil && !constant.BoolVal(k.Value) {
			continue // failure return
		}
		n++
		key := "pair:convertUnit:auto"
		pos := p.relFile(ret.Pos())
		val, name := ret.Results[0], ret.Results[1]
		if _, up0, ok := unitFieldLoad(name, "CanonicalName"); ok {
			r0, _, _ := unitFieldLoad(name, "CanonicalName")
			key = "pair:convertUnit:" + r0.Name() + up0
		}
		if e1, ok := name.(*ssa.Extract); ok {
			if e0, ok := val.(*ssa.Extract); ok && e0.Tuple == e1.Tuple && e0.Index == 0 && e1.Index == 1 {
				c.ok("C15-R6", key, pos, "value and unit come from one auto-scaling result", "both are results of the same call")
			} else {
				c.bad("C15-R6", key, pos, "convertUnit returns the unit chosen by auto-scaling with a value that is not the one scaled to it")
			}
			continue
		}
		ur, up, ok := unitFieldLoad(name, "CanonicalName")
		if !ok {
			c.undecided("C15-R6", key, pos, "cannot identify the unit whose name convertUnit returns")
			continue
		}
		q, isQ := val.(*ssa.BinOp)
		if !isQ || q.Op != token.QUO {
			c.bad("C15-R6", key, pos, "convertUnit names the result's unit ("+up+".CanonicalName) but returns the value without dividing by that unit's factor: the number is off by the factor between the base unit and the named unit")
			continue
		}
		fr, fp, isF := unitFieldLoad(q.Y, "Factor")
		if !isF || fr != ur || fp != up {
			c.bad("C15-R6", key, pos, "convertUnit divides by the factor of a different unit than the one it names")
			continue
		}
		// numerator: float64(value) * fromUnit.Factor
		num, isM := q.X.(*ssa.BinOp)
		okNum := false
		if isM && num.Op == token.MUL {
			for _, pair := range [][2]ssa.Value{{num.X, num.Y}, {num.Y, num.X}} {
				cv, isC := pair[0].(*ssa.Convert)
				if !isC {
					continue
				}
				if _, isP := cv.X.(*ssa.Parameter); !isP {
					continue
				}
				if _, _, isFF := unitFieldLoad(pair[1], "Factor"); isFF {
					okNum = true
				}
			}
		}
		if okNum {
			c.ok("C15-R6", key, pos, "value / "+up+".Factor is returned with "+up+".CanonicalName", "same unit object for divisor and name; numerator is input * source factor")
		} else {
			c.bad("C15-R6", key, pos, "the value convertUnit divides is not the input multiplied by the source unit's factor")
		}
	}
	// (three on the reviewed tree; merging the default-unit and named-unit returns into one that
	// goes through a selected *Unit leaves two)
	if n < 2 {
		c.undecided("C15-R6", "pair:convertUnit", p.relFile(f.Pos()), fmt.Sprintf("expected at least 2 successful returns in convertUnit, found %d", n))
	}
	// autoScale: factor and name are picked from the same unit in the same step
	if as := c.anchorFn("C15-R6", "internal/measurement", "UnitType.autoScale"); as != nil {
		var fphi, nphi *ssa.Phi
		for _, b := range as.Blocks {
			for _, ins := range b.Instrs {
				if ph, ok := ins.(*ssa.Phi); ok {
					switch bt := ph.Type().Underlying().(*types.Basic); {
					case bt != nil && bt.Kind() == types.Float64:
						if fphi == nil || len(ph.Edges) > len(fphi.Edges) {
							fphi = ph
						}
					case bt != nil && bt.Kind() == types.String:
						if nphi == nil || len(ph.Edges) > len(nphi.Edges) {
							nphi = ph
						}
					}
				}
			}
		}
		pos := p.relFile(as.Pos())
		if fphi == nil || nphi == nil {
			// the best unit so far may be kept as one Unit value: factor and name are then paired
			// by construction, provided the result divides by the factor of the unit it names
			okStruct, n := true, 0
			for _, b := range as.Blocks {
				ret, isRet := b.Instrs[len(b.Instrs)-1].(*ssa.Return)
				if !isRet || len(ret.Results) < 2 {
					continue
				}
				if k, isK := ret.Results[1].(*ssa.Const); isK && k.Value != nil {
					continue // the "no unit found" return
				}
				n++
				q, isQ := ret.Results[0].(*ssa.BinOp)
				if !isQ || q.Op != token.QUO {
					okStruct = false
					continue
				}
				if T, fx, fy, same := fieldPairOfOneObject(q.Y, ret.Results[1]); !same || T != "measurement.Unit" || fx != "Factor" || fy != "CanonicalName" {
					okStruct = false
				}
			}
			if okStruct && n > 0 {
				c.ok("C15-R6", "pair:autoScale", pos, "autoScale returns value / U.Factor with U.CanonicalName for one unit value U", "factor and name are two fields of the same Unit value")
			} else {
				c.undecided("C15-R6", "pair:autoScale", pos, "autoScale's running factor/name pair not found")
			}
		} else {
			bad := ""
			paired := 0
			// find the selecting phis: any block where a float phi and a string phi have edges (Factor of U, CanonicalName of U)
			for _, b := range as.Blocks {
				var fs, ns []*ssa.Phi
				for _, ins := range b.Instrs {
					if ph, ok := ins.(*ssa.Phi); ok {
						if bt, ok := ph.Type().Underlying().(*types.Basic); ok {
							if bt.Kind() == types.Float64 {
								fs = append(fs, ph)
							} else if bt.Kind() == types.String {
								ns = append(ns, ph)
							}
						}
					}
				}
				for _, fp := range fs {
					for i, e := range fp.Edges {
						r, pth, ok := unitFieldLoad(e, "Factor")
						if !ok {
							continue
						}
						match := false
						for _, np := range ns {
							if r2, p2, ok := unitFieldLoad(np.Edges[i], "CanonicalName"); ok && r2 == r && p2 == pth {
								match = true
							}
						}
						if match {
							paired++
						} else {
							bad = "the factor is taken from a unit whose name is not selected in the same step"
						}
					}
				}
			}
			if bad != "" || paired == 0 {
				if bad == "" {
					bad = "no step selects a unit's factor together with its name"
				}
				c.bad("C15-R6", "pair:autoScale", pos, "autoScale: "+bad)
			} else {
				c.ok("C15-R6", "pair:autoScale", pos, "autoScale selects factor and name from the same unit", fmt.Sprintf("%d selecting step(s) pair U.Factor with U.CanonicalName", paired))
			}
		}
	}
}

// R7: CommonValueType keeps the finest unit seen so far and compares every further unit
// against that running minimum, not against a value fixed before the loop.
func (c *Check) runningMinimum() { c.runningMinimumAs("C15-R7") }

func (c *Check) runningMinimumAs(rule string) {
	p := c.P
	f := c.anchorFn(rule, "internal/measurement", "CommonValueType")
	if f == nil {
		return
	}
	var scale *ssa.Call
	for _, b := range f.Blocks {
		for _, ins := range b.Instrs {
			if call, ok := ins.(*ssa.Call); ok && call.Call.StaticCallee() != nil && loopDepth(b) > 0 {
				callee := call.Call.StaticCallee()
				if callee.Name() == "Scale" {
					scale = call
				} else if fnInModule(callee) && len(callee.Blocks) > 0 && callee.Name() != "compatibleValueTypes" {
					// a helper that compares two units through Scale
					units, viaScale := 0, false
					for _, a := range call.Call.Args {
						if isFieldLoad(a, "profile.ValueType", "Unit") {
							units++
						}
					}
					for _, hb := range callee.Blocks {
						for _, hi := range hb.Instrs {
							if hc, ok := hi.(*ssa.Call); ok && hc.Call.StaticCallee() != nil && hc.Call.StaticCallee().Name() == "Scale" {
								viaScale = true
							}
						}
					}
					if units >= 2 && viaScale && scale == nil {
						scale = call
					}
				}
			}
		}
	}
	if scale == nil {
		c.undecided(rule, "running-min", p.relFile(f.Pos()), "no unit comparison (call of Scale) inside CommonValueType's loop")
		return
	}
	pos := p.relFile(scale.Pos())
	// the operands: loads of ValueType.Unit; one of them from a loop-carried phi
	var phiBase *ssa.Phi
	var other ssa.Value
	for _, a := range scale.Call.Args {
		ld, ok := a.(*ssa.UnOp)
		if !ok || ld.Op != token.MUL {
			continue
		}
		fa, ok := ld.X.(*ssa.FieldAddr)
		if !ok {
			continue
		}
		if T, F := fieldOf(fa.X.Type(), fa.Field); T != "profile.ValueType" || F != "Unit" {
			continue
		}
		if ph, ok := fa.X.(*ssa.Phi); ok && loopDepth(ph.Block()) > 0 {
			phiBase = ph
		} else {
			other = fa.X
		}
	}
	switch {
	case phiBase == nil:
		c.bad(rule, "running-min", pos, "CommonValueType compares each unit with a value fixed outside the loop instead of the finest unit found so far: with three or more profiles the result depends on their order and a coarser unit can win (finer profiles are then scaled down and lose samples)")
	case other == nil:
		c.undecided(rule, "running-min", pos, "second operand of the unit comparison not recognised")
	default:
		// the loop-carried value is replaced by the compared element on some path (possibly
		// through the merge phi of the `if` and of the loop's post block)
		upd := false
		seenPhi := map[*ssa.Phi]bool{}
		var look func(ph *ssa.Phi)
		look = func(ph *ssa.Phi) {
			if seenPhi[ph] {
				return
			}
			seenPhi[ph] = true
			for _, e := range ph.Edges {
				if e == other {
					upd = true
				}
				if q, ok := e.(*ssa.Phi); ok {
					look(q)
				}
			}
		}
		look(phiBase)
		if upd {
			c.ok(rule, "running-min", pos, "every unit is compared against the running minimum", "Scale's reference operand reads the loop-carried minimum, which is replaced by the compared element")
		} else {
			c.bad(rule, "running-min", pos, "the running minimum of CommonValueType is never replaced by the element it was compared with")
		}
	}
}

func closeEnough(a, b float64) bool {
	return math.Abs(a-b) <= 1e-12*math.Max(math.Abs(a), math.Abs(b))
}

// impliedFactor: factor implied by a long alias such as "megabyte", "microsecond", "kilogcu", "hour".
func impliedFactor(u unitDef, fam []unitDef) (float64, string, bool) {
	baseFactor := func(base string) (float64, bool) {
		for _, v := range fam {
			for _, a := range v.aliases {
				if a == base {
					return v.factor, true
				}
			}
		}
		return 0, false
	}
	si := map[string]float64{"nano": 1e-9, "micro": 1e-6, "milli": 1e-3, "kilo": 1e3, "mega": 1e6, "giga": 1e9, "tera": 1e12, "peta": 1e15}
	bin := map[string]float64{"kilo": 1 << 10, "mega": 1 << 20, "giga": 1 << 30, "tera": 1 << 40, "peta": 1 << 50}
	for _, a := range u.aliases {
		for _, base := range []string{"byte", "second", "gcu"} {
			if !strings.HasSuffix(a, base) || a == base {
				continue
			}
			prefix := strings.TrimSuffix(a, base)
			bf, ok := baseFactor(base)
			if !ok {
				continue
			}
			table := si
			if base == "byte" {
				table = bin
			}
			if m, ok := table[prefix]; ok {
				return m * bf, prefix + " × " + base, true
			}
		}
		if a == "hour" {
			if bf, ok := baseFactor("second"); ok {
				return 3600 * bf, "3600 × second", true
			}
		}
	}
	return 0, "", false
}

// sniffNormalisation extracts the normalisation sniffUnit applies before the alias lookup:
// lower-casing, then removal of a suffix when the length (in bytes or in runes) exceeds a
// threshold.
func (c *Check) sniffNormalisation() (func(string) string, string) {
	p := c.P
	f := c.anchorFn("C15-R1", "internal/measurement", "UnitType.sniffUnit")
	if f == nil {
		return nil, ""
	}
	lower := false
	suffix := ""
	threshold := int64(-1)
	measure := ""
	isLower := func(v ssa.Value) bool {
		call, ok := v.(*ssa.Call)
		return ok && call.Call.StaticCallee() != nil && call.Call.StaticCallee().String() == "strings.ToLower"
	}
	for _, b := range helperBlocks(f, 2) {
		for _, ins := range b.Instrs {
			switch x := ins.(type) {
			case *ssa.Call:
				if sc := x.Call.StaticCallee(); sc != nil {
					switch sc.String() {
					case "strings.ToLower":
						lower = true
					case "strings.TrimSuffix", "strings.CutSuffix":
						suffix, _ = constString(x.Call.Args[1])
						// the model below lower-cases first: the code must too, or an upper-case
						// plural ("BYTES") keeps its S and is not recognised
						if suffix == strings.ToLower(suffix) && !mustDepend(x.Call.Args[0], isLower) {
							c.bad("C15-R1", "normalisation:order", p.relFile(x.Pos()), "sniffUnit strips the plural suffix "+fmt.Sprintf("%q", suffix)+" from text that has not been lower-cased yet: an upper-case plural spelling (\"BYTES\", \"HOURS\") keeps its S, is not found among the aliases and is treated as an unknown unit (no conversion, profiles rejected as incompatible)")
						} else {
							c.ok("C15-R1", "normalisation:order", p.relFile(x.Pos()), "the plural suffix is stripped from the lower-cased spelling", "TrimSuffix's input is the result of strings.ToLower on every path")
						}
					}
				}
			case *ssa.BinOp:
				// "longer than k": n > k, or its negation n <= k guarding the early return
				// (n >= k+1 and n < k+1 likewise)
				adj := int64(-1)
				switch x.Op {
				case token.GTR, token.LEQ:
					adj = 0
				case token.GEQ, token.LSS:
					adj = 1
				}
				if adj >= 0 {
					if k, ok := constInt(x.Y); ok {
						k -= adj
						if lenArg(x.X) != nil {
							threshold, measure = k, "bytes"
						} else if call, ok := x.X.(*ssa.Call); ok && call.Call.StaticCallee() != nil && call.Call.StaticCallee().String() == "unicode/utf8.RuneCountInString" {
							threshold, measure = k, "runes"
						}
					}
				}
			}
		}
	}
	if !lower || suffix == "" || threshold < 0 {
		c.undecided("C15-R1", "normalisation", p.relFile(f.Pos()), fmt.Sprintf("sniffUnit's normalisation not recognised (ToLower: %v, suffix %q, threshold %d)", lower, suffix, threshold))
		return nil, ""
	}
	norm := func(s string) string {
		s = strings.ToLower(s)
		n := len(s)
		if measure == "runes" {
			n = utf8.RuneCountInString(s)
		}
		if int64(n) > threshold {
			s = strings.TrimSuffix(s, suffix)
		}
		return s
	}
	return norm, fmt.Sprintf("lower-case, then drop a trailing %q when the length in %s exceeds %d", suffix, measure, threshold)
}

// stringsStoredInGlobal: the string constants the package initialiser puts into the map or
// slice held by global gl (keys and elements).
func stringsStoredInGlobal(p *Program, gl *ssa.Global) []string {
	init := gl.Pkg.Func("init")
	if init == nil {
		return nil
	}
	// the container value stored into the global
	var containers []ssa.Value
	for _, b := range init.Blocks {
		for _, ins := range b.Instrs {
			if st, ok := ins.(*ssa.Store); ok && st.Addr == ssa.Value(gl) {
				containers = append(containers, st.Val)
			}
		}
	}
	var out []string
	for _, cv := range containers {
		if sl, ok := cv.(*ssa.Slice); ok {
			cv = sl.X // literal array behind a slice
		}
		if cv.Referrers() == nil {
			continue
		}
		for _, r := range *cv.Referrers() {
			switch x := r.(type) {
			case *ssa.MapUpdate:
				if k, ok := constString(x.Key); ok {
					out = append(out, k)
				}
				if k, ok := constString(x.Value); ok {
					out = append(out, k)
				}
			case *ssa.IndexAddr:
				if x.Referrers() == nil {
					continue
				}
				for _, r2 := range *x.Referrers() {
					if st, ok := r2.(*ssa.Store); ok {
						if k, ok := constString(st.Val); ok {
							out = append(out, k)
						}
					}
				}
			}
		}
	}
	return out
}
