package main

// A-LOCK: must-hold lockset at an instruction (intraprocedural part).
//
// A mutex m is held at instruction i of f when a call m.Lock() (or RLock) dominates i and
// every m.Unlock() in f is either deferred or is itself dominated by i (it comes after i
// on every path that reaches it).

import (
	"go/token"

	"golang.org/x/tools/go/ssa"
)

type lockRef struct {
	desc string    // "currentMu", "recv.mu", …
	key  string    // canonical identity used to match Lock with Unlock
	val  ssa.Value // the *sync.Mutex pointer operand
}

// mutexIdentity canonicalises the receiver of a Lock/Unlock call.
func mutexIdentity(v ssa.Value) (string, bool) {
	switch x := v.(type) {
	case *ssa.Global:
		return "global:" + x.Name(), true
	case *ssa.FieldAddr:
		_, f := fieldOf(x.X.Type(), x.Field)
		base, ok := mutexIdentity(x.X)
		if !ok {
			return "", false
		}
		return base + "." + f, true
	case *ssa.Parameter:
		return "param:" + x.Name(), true
	case *ssa.FreeVar:
		return "free:" + x.Name(), true
	case *ssa.UnOp:
		if x.Op == token.MUL {
			base, ok := mutexIdentity(x.X)
			if !ok {
				return "", false
			}
			return "*" + base, true
		}
	case *ssa.Alloc:
		return "local:" + x.Comment, true
	}
	return "", false
}

type lockCall struct {
	ins    ssa.Instruction
	id     string
	lock   bool // Lock/RLock vs Unlock/RUnlock
	defer_ bool
}

func lockCalls(f *ssa.Function) []lockCall {
	var out []lockCall
	for _, b := range f.Blocks {
		for _, ins := range b.Instrs {
			ci, ok := ins.(ssa.CallInstruction)
			if !ok {
				continue
			}
			sc := ci.Common().StaticCallee()
			if sc == nil {
				continue
			}
			var lock bool
			switch sc.String() {
			case "(*sync.Mutex).Lock", "(*sync.RWMutex).Lock", "(*sync.RWMutex).RLock":
				lock = true
			case "(*sync.Mutex).Unlock", "(*sync.RWMutex).Unlock", "(*sync.RWMutex).RUnlock":
				lock = false
			default:
				continue
			}
			id, ok := mutexIdentity(ci.Common().Args[0])
			if !ok {
				id = "?" + describeValue(ci.Common().Args[0])
			}
			_, isDefer := ins.(*ssa.Defer)
			out = append(out, lockCall{ins, id, lock, isDefer})
		}
	}
	return out
}

func instrDominates(a, b ssa.Instruction) bool {
	if a.Block() == b.Block() {
		return instrIndex(a) < instrIndex(b)
	}
	return a.Block().Dominates(b.Block())
}

// heldAt returns the identities of the mutexes that are certainly held at ins.
func heldAt(f *ssa.Function, ins ssa.Instruction) map[string]bool {
	held := map[string]bool{}
	calls := lockCalls(f)
	for _, lc := range calls {
		if !lc.lock || lc.defer_ || !instrDominates(lc.ins, ins) {
			continue
		}
		ok := true
		for _, uc := range calls {
			if uc.lock || uc.id != lc.id || uc.defer_ {
				continue
			}
			// an explicit unlock releases the lock before ins only if it can be executed
			// after the Lock and before ins without passing the Lock again
			if uc.ins.Block() == ins.Block() {
				if instrIndex(uc.ins) > instrIndex(ins) {
					continue
				}
				if lc.ins.Block() == ins.Block() && instrIndex(uc.ins) < instrIndex(lc.ins) {
					continue
				}
				ok = false
				continue
			}
			if !reachesAvoiding(uc.ins.Block(), ins.Block(), lc.ins.Block()) {
				continue
			}
			ok = false
		}
		if ok {
			held[lc.id] = true
		}
	}
	return held
}

// reachesAvoiding: can control flow go from block from to block to without entering avoid?
func reachesAvoiding(from, to, avoid *ssa.BasicBlock) bool {
	seen := map[*ssa.BasicBlock]bool{}
	var walk func(b *ssa.BasicBlock) bool
	walk = func(b *ssa.BasicBlock) bool {
		if b == to {
			return true
		}
		if seen[b] || b == avoid {
			return false
		}
		seen[b] = true
		for _, s := range b.Succs {
			if walk(s) {
				return true
			}
		}
		return false
	}
	for _, s := range from.Succs {
		if walk(s) {
			return true
		}
	}
	return false
}

// lockLeaks: for every Lock() in f that is not paired with a deferred Unlock, a path from
// the Lock to a return that passes no Unlock of the same mutex.
func lockLeaks(f *ssa.Function) []lockCall {
	calls := lockCalls(f)
	var leaks []lockCall
	for _, lc := range calls {
		if !lc.lock || lc.defer_ {
			continue
		}
		deferred := false
		for _, uc := range calls {
			if !uc.lock && uc.id == lc.id && uc.defer_ {
				deferred = true
			}
		}
		if deferred {
			continue
		}
		unlock := map[ssa.Instruction]bool{}
		for _, uc := range calls {
			if !uc.lock && uc.id == lc.id {
				unlock[uc.ins] = true
			}
		}
		seen := map[*ssa.BasicBlock]bool{}
		leak := false
		var walk func(b *ssa.BasicBlock, from int)
		walk = func(b *ssa.BasicBlock, from int) {
			if leak {
				return
			}
			for _, ins := range b.Instrs[from:] {
				if unlock[ins] {
					return
				}
				if _, isRet := ins.(*ssa.Return); isRet {
					leak = true
					return
				}
				if _, isPanic := ins.(*ssa.Panic); isPanic {
					return
				}
			}
			for _, s := range b.Succs {
				if !seen[s] {
					seen[s] = true
					walk(s, 0)
				}
			}
		}
		walk(lc.ins.Block(), instrIndex(lc.ins)+1)
		if leak {
			leaks = append(leaks, lc)
		}
	}
	return leaks
}
