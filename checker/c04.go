package main

import (
	"fmt"
	"go/token"
	"go/types"
	"strings"

	"golang.org/x/tools/go/ssa"
)

func init() { register("C04", true, runC04) }

func runC04(c *Check) {
	c.Explanation = "Decides only two structural clauses of C04 (that flat, cum and edge weights equal their definition over samples is value-level and out of static reach): the printers of the output forms the property names (text/top items, tree/peek, dot, callgrind, topproto, web top) obtain node, edge and tag values through FlatValue/CumValue/WeightValue, or read the raw sum together with its divisor, so the mean option divides the same way in every form (R1); the diff-base label that marks base samples is written, tested and removed with one and the same key and value, is removed only by the report's graph construction, and is left in place by the proto output so a saved diff reopens as a diff (R2); the report total is computed by one function that takes absolute values and, for diffs, only base samples (R3, shape only); the sample loops of newGraph and newTree skip a sample only when its mean-divisor contribution is zero as well (R4); the per-sample seen-sets of newGraph are updated with exactly the key that was tested (R5). Also: edge weight is added under a per-sample seen-set keyed by caller and callee (R5), computeTotal selects dividend and divisor together (R6), newTree gives a location without lines one empty line so it keeps its frame (R7). Also: a node with non-zero flat is never left out of the graph's node list (R9); every edge accumulation of the graph construction carries the mean divisor (R10); pseudo-frame lists are built in storage of their own (R11). Round-I additions: a block of Aggregate guarded by 'some flag is off' tests no flag its guard does not name; newGraph keys nodes by binary only for raw, list, weblist, disasm and callgrind. Not decided: the numbers themselves, list/disasm/weblist value display under -mean."
	p := c.P
	// ---- R1 accessor discipline
	printers := map[string]bool{
		"report.printTree": true, "report.printCallgrind": true, "report.TextItems": true, "report.printText": true,
		"report.printTopProto": true, "report.printDOT": true, "report.GetDOT": true, "report.printTraces": true,
		"(*graph.builder).addNode": true, "(*graph.builder).addEdge": true, "(*graph.builder).addNodelets": true,
		"(*graph.builder).numericNodelets": true, "(*graph.builder).tagGroupLabel": true, "(*graph.builder).collapsedTags": true,
		"graph.ComposeDot": true, "(*driver.webInterface).top": true, "(*driver.webInterface).peek": true, "(*driver.webInterface).dot": true,
	}
	raw := map[string]string{ // field → divisor
		"graph.Node.Flat": "FlatDiv", "graph.Node.Cum": "CumDiv", "graph.Edge.Weight": "WeightDiv", "graph.Tag.Flat": "FlatDiv", "graph.Tag.Cum": "CumDiv",
	}
	found := 0
	for _, rel := range []string{"internal/report", "internal/graph", "internal/driver"} {
		forAllPkgFuncs(p, rel, func(f *ssa.Function) {
			top := f
			for top.Parent() != nil {
				top = top.Parent()
			}
			if !printers[fnName(top)] {
				return
			}
			found++
			nraw := 0
			for _, b := range f.Blocks {
				for _, ins := range b.Instrs {
					ld, ok := ins.(*ssa.UnOp)
					if !ok || ld.Op != token.MUL {
						continue
					}
					fa, ok := ld.X.(*ssa.FieldAddr)
					if !ok {
						continue
					}
					T, F := fieldOf(fa.X.Type(), fa.Field)
					div, isRaw := raw[T+"."+F]
					if !isRaw {
						continue
					}
					nraw++
					key := fmt.Sprintf("raw:%s:%s.%s", fnName(f), T, F)
					// the matching divisor of the same object is read in the same function
					paired := false
					for _, b2 := range f.Blocks {
						for _, i2 := range b2.Instrs {
							if fa2, ok := i2.(*ssa.FieldAddr); ok && sameNode(fa2.X, fa.X) {
								if _, F2 := fieldOf(fa2.X.Type(), fa2.Field); F2 == div {
									paired = true
								}
							}
						}
					}
					if paired {
						c.ok("C04-R1", key, p.relFile(ld.Pos()), fmt.Sprintf("%s.%s read in %s", T, F, fnName(f)), "the divisor "+div+" of the same object is read alongside it")
					} else {
						c.bad("C04-R1", key, p.relFile(ld.Pos()), fmt.Sprintf("%s reads the raw sum %s.%s without its divisor %s: with the mean option this output form shows a different number than the others", fnName(f), T, F, div))
					}
				}
			}
			if nraw == 0 {
				c.ok("C04-R1", "raw:"+fnName(f), p.relFile(f.Pos()), fnName(f)+" shows values only through the *Value accessors", "no direct read of Node.Flat/Cum, Edge.Weight or Tag.Flat/Cum")
			}
		})
	}
	if found < 10 {
		c.undecided("C04-R1", "printers", "", fmt.Sprintf("only %d of the listed printer functions were found", found))
	}
	// accessors themselves divide by the divisor
	for _, acc := range []struct{ fn, sum, div string }{
		{"(*Node).FlatValue", "Flat", "FlatDiv"}, {"(*Node).CumValue", "Cum", "CumDiv"}, {"(*Edge).WeightValue", "Weight", "WeightDiv"},
		{"(*Tag).FlatValue", "Flat", "FlatDiv"}, {"(*Tag).CumValue", "Cum", "CumDiv"},
	} {
		f := c.anchorFn("C04-R1", "internal/graph", acc.fn)
		if f == nil {
			continue
		}
		ok := false
		for _, b := range f.Blocks {
			for _, ins := range b.Instrs {
				if q, isQ := ins.(*ssa.BinOp); isQ && q.Op == token.QUO && isFieldLoad(q.X, "", acc.sum) && isFieldLoad(q.Y, "", acc.div) {
					ok = true
				}
			}
		}
		key := "accessor:" + acc.fn
		if ok {
			c.ok("C04-R1", key, p.relFile(f.Pos()), acc.fn+" divides the sum by its own divisor", acc.sum+" / "+acc.div)
		} else {
			c.bad("C04-R1", key, p.relFile(f.Pos()), acc.fn+" no longer computes "+acc.sum+" / "+acc.div)
		}
	}

	c.diffBaseProtocol("C04-R2")

	// ---- R3 total
	if ct := c.anchorFn("C04-R3", "internal/report", "computeTotal"); ct != nil {
		usesBase, usesAbs := false, false
		for _, g := range withHelpers(ct, 2) {
			if g.Name() == "abs64" {
				continue
			}
			for _, b := range g.Blocks {
				for _, ins := range b.Instrs {
					if call, ok := ins.(*ssa.Call); ok && call.Call.StaticCallee() != nil {
						switch call.Call.StaticCallee().Name() {
						case "DiffBaseSample":
							usesBase = true
						case "abs64":
							usesAbs = true
						}
					}
					if cmp, ok := ins.(*ssa.BinOp); ok && cmp.Op == token.LSS {
						if k, ok := constInt(cmp.Y); ok && k == 0 {
							usesAbs = true // if v < 0 { v = -v }
						}
					}
					// v = max(v, -v)
					if call, ok := ins.(*ssa.Call); ok {
						if bi, isB := call.Call.Value.(*ssa.Builtin); isB && bi.Name() == "max" && len(call.Call.Args) == 2 {
							for _, pr := range [][2]ssa.Value{{call.Call.Args[0], call.Call.Args[1]}, {call.Call.Args[1], call.Call.Args[0]}} {
								if neg, isNeg := pr[1].(*ssa.UnOp); isNeg && neg.Op == token.SUB && neg.X == pr[0] {
									usesAbs = true
								}
							}
						}
					}
				}
			}
		}
		if usesBase && usesAbs {
			c.ok("C04-R3", "total", p.relFile(ct.Pos()), "the report total sums absolute values and uses the base samples for diffs", "computeTotal calls DiffBaseSample and takes absolute values")
		} else {
			c.bad("C04-R3", "total", p.relFile(ct.Pos()), fmt.Sprintf("computeTotal no longer takes absolute values (%v) or no longer separates base samples (%v)", usesAbs, usesBase))
		}
		if bad := onlyCalledFrom(c, "internal/report", "computeTotal", "New"); bad == "" {
			c.ok("C04-R3", "total:single", p.relFile(ct.Pos()), "one total per report", "computeTotal is only called from report.New")
		} else {
			c.bad("C04-R3", "total:single", p.relFile(ct.Pos()), "the report total is computed in more than one place: "+bad)
		}
	}
	c.meanDivisorNeverSkipped()
	c.nodeSelectionKeepsFlat()
	c.edgesCarryDivisor()
	c.pseudoFrameListsFresh()
	c.seenSetKeys()
	c.edgeDedupByPair()
	c.totalAndDivisorTogether()
	c.unsymbolizedFramesInTree()
	c.divisorUnmodified()
	c.pseudoFramesOnEverySample()
	c.flagGuardCoversBody("C04-R12", "profile", "Aggregate")
	c.objNamesFormats()
}

// R5b: edge weights are de-duplicated per (caller, callee) pair and per sample: the
// AddToEdgeDiv call of newGraph is dominated by a miss in a seen-set whose key is built
// from both the callee node and the current parent.  De-duplicating by the callee alone
// drops the edge of a node re-entered through a different caller.
func (c *Check) edgeDedupByPair() {
	p := c.P
	f := c.anchorFn("C04-R5", "internal/graph", "newGraph")
	if f == nil {
		return
	}
	// the per-sample body may be newGraph itself or a helper/method it calls; the addition may
	// be made through a thin wrapper that receives the two nodes
	type edgeAdd struct {
		call          *ssa.Call
		parent, child ssa.Value
	}
	var adds []edgeAdd
	for _, b := range helperBlocks(f, 2) {
		for _, ins := range b.Instrs {
			call, ok := ins.(*ssa.Call)
			if !ok || call.Call.StaticCallee() == nil || call.Call.StaticCallee().Name() != "AddToEdgeDiv" {
				continue
			}
			parent, child := call.Call.Args[0], call.Call.Args[1]
			pp, okP := parent.(*ssa.Parameter)
			cp, okC := child.(*ssa.Parameter)
			if okP && okC && pp.Parent() == call.Parent() && cp.Parent() == call.Parent() && call.Parent() != f {
				// wrapper: one edgeAdd per call of the wrapper
				w := call.Parent()
				pi, ci := -1, -1
				for i, q := range w.Params {
					if q == pp {
						pi = i
					}
					if q == cp {
						ci = i
					}
				}
				sites, _ := directCallSites(p, w)
				for _, cs := range sites {
					if wc, ok := cs.(*ssa.Call); ok && pi >= 0 && ci >= 0 && pi < len(wc.Call.Args) && ci < len(wc.Call.Args) {
						adds = append(adds, edgeAdd{wc, wc.Call.Args[pi], wc.Call.Args[ci]})
					}
				}
				continue
			}
			adds = append(adds, edgeAdd{call, parent, child})
		}
	}
	{
		for _, ea := range adds {
			call, parent, child := ea.call, ea.parent, ea.child
			b := call.Block()
			if b.Parent().Name() == "newTree" {
				continue // the tree has no recursion to fold
			}
			found := false
			for _, b2 := range b.Parent().Blocks {
				if !b2.Dominates(b) {
					continue
				}
				for _, i2 := range b2.Instrs {
					lk, ok := i2.(*ssa.Lookup)
					if !ok || !isSetMap(lk.X) {
						continue
					}
					hasP, hasC := false, false
					for _, v := range structKeyFields(lk.Index) {
						if v == parent {
							hasP = true
						}
						if v == child {
							hasC = true
						}
					}
					if hasP && hasC {
						found = true
					}
				}
			}
			if found {
				c.ok("C04-R5", "edge-dedup", p.relFile(call.Pos()), "edge weight is added once per (caller, callee) pair and sample", "AddToEdgeDiv is dominated by a lookup in a per-sample set keyed by both nodes")
			} else {
				c.bad("C04-R5", "edge-dedup", p.relFile(call.Pos()), "newGraph adds edge weight without a per-sample seen-set keyed by caller and callee: with recursion an adjacency is either counted more than once in a sample or (when keyed by the callee alone) the edge of a node re-entered through a different caller gets no weight")
			}
		}
	}
}

// accumulatorBlocks: the blocks of the additions that feed a loop-carried sum.
func accumulatorBlocks(v ssa.Value, seen map[ssa.Value]bool, out map[*ssa.BasicBlock]bool) {
	if seen[v] {
		return
	}
	seen[v] = true
	switch x := v.(type) {
	case *ssa.Phi:
		for _, e := range x.Edges {
			accumulatorBlocks(e, seen, out)
		}
	case *ssa.BinOp:
		if x.Op == token.ADD {
			out[x.Block()] = true
			accumulatorBlocks(x.X, seen, out)
		}
	}
}

// R6: with the mean option the report total is a sum divided by the sum of counts of the
// same samples.  In computeTotal the dividend and the divisor of the final quotient are
// selected together: wherever the dividend switches to the base-only sum, the divisor
// switches to the sum accumulated in the same place (under the same condition).
func (c *Check) totalAndDivisorTogether() {
	p := c.P
	f := c.anchorFn("C04-R6", "internal/report", "computeTotal")
	if f == nil {
		return
	}
	var quo *ssa.BinOp
	for _, b := range helperBlocks(f, 2) {
		for _, ins := range b.Instrs {
			if q, ok := ins.(*ssa.BinOp); ok && q.Op == token.QUO && (quo == nil || b.Parent() == f) {
				quo = q
			}
		}
	}
	if quo == nil {
		c.undecided("C04-R6", "total/div", p.relFile(f.Pos()), "no quotient found in computeTotal")
		return
	}
	// sum and count kept as two fields of one accumulator object: they are selected together by
	// construction when the quotient reads both from the same object, and they cover the same
	// samples when every function that adds to one field adds to the other in the same block
	if T, fx, fy, ok := fieldPairOfOneObject(quo.X, quo.Y); ok {
		bad := ""
		type pos struct {
			fn *ssa.Function
			b  *ssa.BasicBlock
		}
		adds := map[string]map[pos]bool{fx: {}, fy: {}}
		for _, b := range helperBlocks(f, 2) {
			for _, ins := range b.Instrs {
				st, ok := ins.(*ssa.Store)
				if !ok {
					continue
				}
				fa, ok := st.Addr.(*ssa.FieldAddr)
				if !ok {
					continue
				}
				if t, F := fieldOf(fa.X.Type(), fa.Field); t == T && (F == fx || F == fy) {
					adds[F][pos{b.Parent(), b}] = true
				}
			}
		}
		for k := range adds[fx] {
			if !adds[fy][k] {
				bad = "the sum field " + T + "." + fx + " is updated in " + fnName(k.fn) + " where the count field " + fy + " is not"
			}
		}
		for k := range adds[fy] {
			if !adds[fx][k] {
				bad = "the count field " + T + "." + fy + " is updated in " + fnName(k.fn) + " where the sum field " + fx + " is not"
			}
		}
		if len(adds[fx]) == 0 {
			bad = "no update of " + T + "." + fx + " found"
		}
		if bad == "" {
			c.ok("C04-R6", "total/div", p.relFile(quo.Pos()), "the mean total divides each sum by the counts of the same samples", "sum and count are the two fields of one "+T+" object, read together by the quotient and always updated together")
		} else {
			c.bad("C04-R6", "total/div", p.relFile(quo.Pos()), "computeTotal: "+bad+": with the mean option a diff-base report divides the base samples' sum by the count of other samples")
		}
		return
	}
	blocksOf := func(v ssa.Value) map[*ssa.BasicBlock]bool {
		out := map[*ssa.BasicBlock]bool{}
		accumulatorBlocks(v, map[ssa.Value]bool{}, out)
		return out
	}
	sameSet := func(a, b map[*ssa.BasicBlock]bool) bool {
		if len(a) != len(b) {
			return false
		}
		for k := range a {
			if !b[k] {
				return false
			}
		}
		return true
	}
	px, okx := quo.X.(*ssa.Phi)
	py, oky := quo.Y.(*ssa.Phi)
	bad := ""
	switch {
	case okx != oky:
		bad = "the dividend and the divisor are not selected together (one of them switches to the base-only sum, the other does not)"
	case okx && (px.Block() != py.Block() || len(px.Edges) != len(py.Edges)):
		bad = "the dividend and the divisor are selected at different places"
	case okx:
		for i := range px.Edges {
			if !sameSet(blocksOf(px.Edges[i]), blocksOf(py.Edges[i])) {
				bad = "on one path the dividend and the divisor are sums accumulated under different conditions"
			}
		}
	default:
		if !sameSet(blocksOf(quo.X), blocksOf(quo.Y)) {
			bad = "dividend and divisor are sums accumulated under different conditions"
		}
	}
	if bad == "" {
		c.ok("C04-R6", "total/div", p.relFile(quo.Pos()), "the mean total divides each sum by the counts of the same samples", "dividend and divisor switch together and are accumulated in the same blocks")
	} else {
		c.bad("C04-R6", "total/div", p.relFile(quo.Pos()), "computeTotal: "+bad+": with the mean option a diff-base report divides the base samples' sum by the count of all samples")
	}
}

// R7: a location without line information still occupies a frame.  In newTree the
// per-location line loop runs over a list that has at least one entry on every path
// (the location's lines when there are any, otherwise a single empty line), so an
// unsymbolized frame gets its own node, flat value and edges in call_tree mode as it does
// in graph mode.
func (c *Check) unsymbolizedFramesInTree() {
	p := c.P
	f := c.anchorFn("C04-R7", "internal/graph", "newTree")
	if f == nil {
		return
	}
	g := newGuardEngine(p)
	n := 0
	for _, b := range helperBlocks(f, 2) {
		for _, ins := range b.Instrs {
			call, ok := ins.(*ssa.Call)
			if !ok || call.Call.StaticCallee() == nil || call.Call.StaticCallee().Name() != "findOrInsertLine" {
				continue
			}
			// the line argument lines[idx]: which list is indexed
			var list ssa.Value
			if ld, ok := call.Call.Args[2].(*ssa.UnOp); ok && ld.Op == token.MUL {
				if ia, ok := ld.X.(*ssa.IndexAddr); ok {
					list = ia.X
				}
			}
			n++
			key := "tree-unsymbolized"
			if list == nil {
				c.undecided("C04-R7", key, p.relFile(call.Pos()), "the line handed to findOrInsertLine is not an element of a list")
				continue
			}
			nonEmpty := func(v ssa.Value, pred, blk *ssa.BasicBlock) bool {
				if g.minLenByConstruction(v, 0) >= 1 {
					return true
				}
				if pred == nil {
					return false
				}
				// the edge pred→blk is taken only when len(v) != 0
				for d, child := pred, blk; d != nil; child, d = d, d.Idom() {
					iff, ok := d.Instrs[len(d.Instrs)-1].(*ssa.If)
					if !ok {
						continue
					}
					pol := 0
					if d.Succs[0] == child && d.Succs[1] != child {
						pol = 1
					} else if d.Succs[1] == child && d.Succs[0] != child {
						pol = -1
					}
					if pol == 0 || (d != pred && !(child.Dominates(pred) && len(child.Preds) == 1)) {
						continue
					}
					for _, fct := range g.factsFromCond(iff.Cond, pol == 1) {
						if fct.x != nil && g.same(fct.x, v) && (fct.min >= 1 || (fct.neqSet && fct.neq == 0)) {
							return true
						}
					}
				}
				return false
			}
			okAll := false
			if ph, isPhi := list.(*ssa.Phi); isPhi {
				okAll = true
				for i, e := range ph.Edges {
					if !nonEmpty(e, ph.Block().Preds[i], ph.Block()) {
						okAll = false
					}
				}
			} else {
				okAll = nonEmpty(list, nil, nil)
			}
			if okAll {
				c.ok("C04-R7", key, p.relFile(call.Pos()), "every location yields at least one frame in the call tree", "the list of lines iterated per location has length >= 1 on every path (the location's own lines when non-empty, else a one-element list)")
			} else {
				c.bad("C04-R7", key, p.relFile(call.Pos()), "newTree iterates a location's lines without a fallback for locations that have none: an unsymbolized frame gets no node in call_tree mode, its flat value goes to its caller and the edges through it disappear (graph mode still shows it)")
			}
		}
	}
	if n == 0 {
		c.undecided("C04-R7", "tree-unsymbolized", p.relFile(f.Pos()), "newTree no longer calls findOrInsertLine")
	}
}

// structKeyFields: the field values of a struct built as a composite literal and loaded
// (map keys); nil when v is not of that shape.
func structKeyFields(v ssa.Value) map[int]ssa.Value {
	ld, ok := v.(*ssa.UnOp)
	if !ok || ld.Op != token.MUL {
		return nil
	}
	al, ok := ld.X.(*ssa.Alloc)
	if !ok || al.Referrers() == nil {
		return nil
	}
	out := map[int]ssa.Value{}
	for _, r := range *al.Referrers() {
		if fa, ok := r.(*ssa.FieldAddr); ok && fa.Referrers() != nil {
			for _, r2 := range *fa.Referrers() {
				if st, ok := r2.(*ssa.Store); ok && st.Addr == ssa.Value(fa) {
					out[fa.Field] = st.Val
				}
			}
		}
	}
	return out
}

func sameKey(a, b ssa.Value) bool {
	if a == b {
		return true
	}
	fa, fb := structKeyFields(a), structKeyFields(b)
	if fa == nil || fb == nil || len(fa) != len(fb) {
		return false
	}
	for i, v := range fa {
		if fb[i] != v {
			return false
		}
	}
	return true
}

// R5: per-sample de-duplication.  newGraph counts a node and an adjacency once per sample
// by remembering them in seen-sets.  The key recorded after a miss must be the key that was
// looked up: a key stored with its fields the other way round marks the reverse adjacency
// as seen and leaves the real one unmarked, so recursive stacks count an edge twice and
// lose the opposite edge.
func (c *Check) seenSetKeys() {
	p := c.P
	f := c.anchorFn("C04-R5", "internal/graph", "newGraph")
	if f == nil {
		return
	}
	n := 0
	// the per-sample body: the function (newGraph or a helper/method it calls) that holds
	// the accumulating calls
	var body []*ssa.BasicBlock
	for _, g := range withHelpers(f, 2) {
		has := false
		for _, b := range g.Blocks {
			for _, ins := range b.Instrs {
				if call, ok := ins.(*ssa.Call); ok && call.Call.StaticCallee() != nil && call.Call.StaticCallee().Name() == "AddToEdgeDiv" {
					has = true
				}
				// (or the function that keeps the per-sample sets, when the additions are made
				// through wrappers)
				if mu, ok := ins.(*ssa.MapUpdate); ok && isSetMap(mu.Map) && g == f {
					has = true
				}
			}
		}
		if has {
			body = append(body, g.Blocks...)
		}
	}
	for _, b := range body {
		for _, ins := range b.Instrs {
			mu, ok := ins.(*ssa.MapUpdate)
			if !ok || !isSetMap(mu.Map) {
				continue
			}
			mt := mu.Map.Type().Underlying().(*types.Map)
			n++
			key := "seen-set:" + typeShort(mt.Key())
			// the guarding lookup: a Lookup on the same map in a block that dominates the update
			var guard *ssa.Lookup
			for _, b2 := range b.Parent().Blocks {
				for _, i2 := range b2.Instrs {
					if lk, ok := i2.(*ssa.Lookup); ok && sameMapRef(lk.X, mu.Map) && (b2 == b && instrIndex(lk) < instrIndex(mu) || b2 != b && b2.Dominates(b)) {
						guard = lk
					}
				}
			}
			switch {
			case guard == nil:
				c.bad("C04-R5", key, p.relFile(mu.Pos()), "newGraph records an entry in the per-sample seen-set "+typeShort(mt.Key())+" without testing it first: repeated frames of a recursive stack are counted more than once")
			case !sameKey(guard.Index, mu.Key):
				c.bad("C04-R5", key, p.relFile(mu.Pos()), "newGraph looks up the per-sample seen-set with one key and records a different one (the fields of the stored key do not match those of the tested key): for recursive stacks an adjacency is counted twice in one sample and the reverse adjacency is never added")
			default:
				c.ok("C04-R5", key, p.relFile(mu.Pos()), "the seen-set "+typeShort(mt.Key())+" is updated with the key that was tested", "same value / same field values for lookup and update")
			}
		}
	}
	if n < 2 {
		c.undecided("C04-R5", "seen-set", p.relFile(f.Pos()), fmt.Sprintf("expected the seen-node and seen-edge sets in newGraph, found %d updates", n))
	}
}

// R4: with the mean option every sample's count enters the divisors.  In the sample loops
// of newGraph and newTree a sample may be skipped only when its divisor contribution is
// zero as well: assuming the divisor is non-zero, no path through one iteration returns to
// the loop header without reaching the frame loop that accumulates value and divisor.
func (c *Check) meanDivisorNeverSkipped() {
	p := c.P
	// accCalls: the accumulating calls of g and the divisor value they receive
	accCalls := func(g *ssa.Function) (acc []*ssa.Call, dw ssa.Value, mixed token.Pos) {
		for _, b := range g.Blocks {
			for _, ins := range b.Instrs {
				call, ok := ins.(*ssa.Call)
				if !ok || call.Call.StaticCallee() == nil {
					continue
				}
				if !isNodeAccumulation(call) {
					continue
				}
				switch call.Call.StaticCallee().Name() {
				case "addSample", "AddToEdgeDiv":
					acc = append(acc, call)
					idx := 1 // receiver, dw
					if call.Call.StaticCallee().Name() == "AddToEdgeDiv" {
						idx = 2 // receiver, to, dw
					}
					if dw == nil {
						dw = call.Call.Args[idx]
					} else if dw != call.Call.Args[idx] {
						mixed = call.Pos()
						dw = call.Call.Args[idx]
					}
				}
			}
		}
		return
	}
	isHeader := func(d *ssa.BasicBlock) bool {
		for _, pred := range d.Preds {
			if d.Dominates(pred) {
				return true
			}
		}
		return false
	}
	// loopsAround: the loop headers around blocks[0], outermost first, that dominate every one
	// of the blocks (the first block must lie inside each loop; the others may follow it)
	loopsAround := func(blocks []*ssa.BasicBlock) []*ssa.BasicBlock {
		var chain []*ssa.BasicBlock
		for d := blocks[0]; d != nil; d = d.Idom() {
			if !isHeader(d) || !naturalLoop(d)[blocks[0]] {
				continue
			}
			all := true
			for _, b := range blocks {
				if !d.Dominates(b) {
					all = false
				}
			}
			if all {
				chain = append([]*ssa.BasicBlock{d}, chain...)
			}
		}
		return chain
	}
	// avoids: assuming dw != 0, a path from `from` reaches `until` (or leaves through a
	// return when until == nil) without entering the block `target`
	avoids := func(dw ssa.Value, starts []*ssa.BasicBlock, target, until *ssa.BasicBlock, within map[*ssa.BasicBlock]bool) *ssa.BasicBlock {
		assume := func(cond ssa.Value) int {
			cmp, ok := cond.(*ssa.BinOp)
			if !ok {
				return 0
			}
			var other ssa.Value
			if cmp.X == dw {
				other = cmp.Y
			} else if cmp.Y == dw {
				other = cmp.X
			} else {
				return 0
			}
			if k, ok := constInt(other); !ok || k != 0 {
				return 0
			}
			switch cmp.Op {
			case token.EQL:
				return -1
			case token.NEQ:
				return 1
			}
			return 0
		}
		var skipAt *ssa.BasicBlock
		seen := map[*ssa.BasicBlock]bool{}
		var walk func(b, from *ssa.BasicBlock)
		walk = func(b, from *ssa.BasicBlock) {
			if skipAt != nil || b == target || seen[b] {
				return
			}
			if until != nil && b == until {
				skipAt = from
				return
			}
			if within != nil && !within[b] {
				return // leaves the loop (return): not a skipped sample
			}
			seen[b] = true
			if until == nil {
				if _, isRet := b.Instrs[len(b.Instrs)-1].(*ssa.Return); isRet {
					skipAt = b
					return
				}
			}
			succs := b.Succs
			if iff, ok := b.Instrs[len(b.Instrs)-1].(*ssa.If); ok {
				switch assume(iff.Cond) {
				case 1:
					succs = b.Succs[:1]
				case -1:
					succs = b.Succs[1:]
				}
			}
			for _, sc := range succs {
				walk(sc, b)
			}
		}
		for _, sc := range starts {
			walk(sc, nil)
		}
		return skipAt
	}
	for _, name := range []string{"newGraph", "newTree"} {
		f := c.anchorFn("C04-R4", "internal/graph", name)
		if f == nil {
			continue
		}
		key := "mean-divisor:" + name
		acc, dw, mixed := accCalls(f)
		var helper *ssa.Function // the per-sample helper that holds the accumulating calls, if any
		var site *ssa.Call
		if len(acc) < 2 {
			// the per-sample body may be a helper (or method) called from the sample loop
			for _, es := range effectiveSites(f, func(ins ssa.Instruction) bool {
				call, ok := ins.(*ssa.Call)
				return ok && isNodeAccumulation(call)
			}, 2) {
				if es.via != nil {
					if call, ok := es.at.(*ssa.Call); ok {
						site, helper = call, es.via
					}
				}
			}
			if helper != nil {
				acc, dw, mixed = accCalls(helper)
			}
		}
		if mixed != token.NoPos {
			c.bad("C04-R4", key, p.relFile(mixed), name+" passes different divisor values to its accumulating calls")
		}
		if len(acc) < 2 || dw == nil {
			// the weights may travel in a record filled by a helper and be added through wrapper
			// methods: decide the same question from where the divisor comes from
			if verdict, pos := c.divisorSkipGeneral(f); verdict != "" {
				if verdict == "ok" {
					c.ok("C04-R4", key, pos, name+" skips a sample only when its divisor contribution is zero too", "assuming the value produced by Options.SampleMeanDivisor non-zero (followed through the record it is kept in and through helpers), every path through one iteration of the sample loop reaches the frame loop")
				} else {
					c.bad("C04-R4", key, pos, name+" can skip a sample whose mean divisor is non-zero (a path through one iteration avoids the frame loop although the divisor value is not zero): with the mean option that sample's count is missing from FlatDiv/CumDiv/WeightDiv and the means come out too large")
				}
				continue
			}
			c.undecided("C04-R4", key, p.relFile(f.Pos()), "accumulating calls (addSample, AddToEdgeDiv) not found in "+name)
			continue
		}
		var accBlocks []*ssa.BasicBlock
		for _, a := range acc {
			accBlocks = append(accBlocks, a.Block())
		}
		var skipAt *ssa.BasicBlock
		var framesPos token.Pos
		if helper == nil {
			chain := loopsAround(accBlocks)
			if len(chain) < 2 {
				c.undecided("C04-R4", key, p.relFile(f.Pos()), "sample loop / frame loop of "+name+" not recognised")
				continue
			}
			hdr, frames := chain[0], chain[1]
			loop := naturalLoop(hdr)
			var starts []*ssa.BasicBlock
			for _, sc := range hdr.Succs {
				if loop[sc] {
					starts = append(starts, sc)
				}
			}
			skipAt = avoids(dw, starts, frames, hdr, loop)
			framesPos = frames.Instrs[0].Pos()
		} else {
			// stage A: in the sample loop of f, the call of the helper is reached whenever the
			// divisor argument is non-zero; stage B: in the helper, the frame loop is reached
			// whenever the divisor parameter is non-zero
			par, isPar := dw.(*ssa.Parameter)
			k := -1
			if isPar {
				for i, q := range helper.Params {
					if q == par {
						k = i
					}
				}
			}
			outer := loopsAround([]*ssa.BasicBlock{site.Block()})
			inner := loopsAround(accBlocks)
			if (isPar && (k < 0 || k >= len(site.Call.Args))) || len(outer) < 1 || len(inner) < 1 {
				c.undecided("C04-R4", key, p.relFile(f.Pos()), "sample loop / frame loop of "+name+" not recognised (per-sample helper "+fnName(helper)+")")
				continue
			}
			hdr := outer[0]
			loop := naturalLoop(hdr)
			var starts []*ssa.BasicBlock
			for _, sc := range hdr.Succs {
				if loop[sc] {
					starts = append(starts, sc)
				}
			}
			if isPar {
				skipAt = avoids(site.Call.Args[k], starts, site.Block(), hdr, loop)
			} else {
				// the divisor is computed inside the helper: the helper must be called for
				// every sample, whatever the sample is
				skipAt = avoids(nil, starts, site.Block(), hdr, loop)
			}
			if skipAt == nil {
				skipAt = avoids(dw, []*ssa.BasicBlock{helper.Blocks[0]}, inner[0], nil, nil)
			}
			framesPos = inner[0].Instrs[0].Pos()
		}
		if skipAt != nil {
			pos := p.relFile(f.Pos())
			if len(skipAt.Instrs) > 0 {
				if q := p.relFile(skipAt.Instrs[len(skipAt.Instrs)-1].Pos()); q != "?" {
					pos = q
				}
			}
			c.bad("C04-R4", key, pos, name+" can skip a sample whose mean divisor is non-zero (a path through one iteration avoids the frame loop although the divisor value is not zero): with the mean option that sample's count is missing from FlatDiv/CumDiv/WeightDiv and the means come out too large")
		} else {
			c.ok("C04-R4", key, p.relFile(framesPos), name+" skips a sample only when its divisor contribution is zero too", "assuming the divisor non-zero, every path through one iteration of the sample loop reaches the frame loop")
		}
	}
}

// diffBaseProtocol: the label that marks base samples is written, tested and removed with
// one key and value; it is removed only by the report's graph construction (after the total
// was computed), and the proto output keeps it so that a saved diff reopens as a diff.
func (c *Check) diffBaseProtocol(rule string) {
	p := c.P
	// ---- R2 diff-base label protocol
	type site struct {
		what, rel, fn, callee string
	}
	keys := map[string][]string{}
	for _, s := range []site{
		{"set", "internal/driver", "fetchProfiles", "SetLabel"},
		{"test", "profile", "(*Sample).DiffBaseSample", "HasLabel"},
		{"remove", "internal/report", "(*Report).newGraph", "RemoveLabel"},
	} {
		f := c.anchorFn(rule, s.rel, s.fn)
		if f == nil {
			continue
		}
		callee := s.callee
		for _, es := range effectiveSites(f, func(ins ssa.Instruction) bool { return calleeNamed(ins, callee) }, 2) {
			call, ok := es.actual.(*ssa.Call)
			if !ok {
				continue
			}
			if k, ok := constString(call.Call.Args[1]); ok && strings.HasPrefix(k, "pprof::") {
				val := ""
				if len(call.Call.Args) > 2 {
					if v, ok := constString(call.Call.Args[2]); ok {
						val = v
					} else if vs := variadicValues(call.Call.Args[2]); len(vs) == 1 {
						val, _ = constString(vs[0])
					}
				}
				keys[s.what] = append(keys[s.what], k+"="+val)
			}
		}
	}
	set, test, rem := keys["set"], keys["test"], keys["remove"]
	switch {
	case len(set) != 1 || len(test) != 1 || len(rem) != 1:
		c.undecided(rule, "diffbase", "", fmt.Sprintf("diff-base label sites not all found (set %v, test %v, remove %v)", set, test, rem))
	case set[0] != test[0]:
		c.bad(rule, "diffbase", "", fmt.Sprintf("base samples are labelled %s but recognised by %s: the total of a diff would no longer be the base total", set[0], test[0]))
	case !strings.HasPrefix(set[0], strings.TrimSuffix(rem[0], "=")+"="):
		c.bad(rule, "diffbase", "", fmt.Sprintf("base samples are labelled %s but the report removes label %s", set[0], rem[0]))
	default:
		c.ok(rule, "diffbase", "", "the diff-base label is written, tested and removed consistently", "fetchProfiles sets "+set[0]+", Sample.DiffBaseSample tests "+test[0]+", Report.newGraph removes key "+strings.TrimSuffix(rem[0], "="))
	}
	// proto output keeps the label: printProto's call tree does not remove labels
	if pp := c.anchorFn(rule, "internal/report", "printProto"); pp != nil {
		parent, _ := p.MG().Reach([]*ssa.Function{pp}, nil)
		bad := ""
		for f := range parent {
			if f.Name() == "RemoveLabel" {
				bad = callPath(parent, f)
			}
		}
		if bad == "" {
			c.ok(rule, "diffbase:proto", p.relFile(pp.Pos()), "a diff saved with -proto keeps its base marking", "RemoveLabel is not reachable from printProto")
		} else {
			c.bad(rule, "diffbase:proto", p.relFile(pp.Pos()), "the proto output removes labels ("+bad+"): a saved diff would reopen as a plain profile")
		}
	}

	// the removal is not reachable from report.New: the total (and any later report on the same
	// profile, and the proto output) still sees the marking
	if nw := c.anchorFn(rule, "internal/report", "New"); nw != nil {
		parent, _ := p.MG().Reach([]*ssa.Function{nw}, nil)
		bad := ""
		for f := range parent {
			if f.Name() == "RemoveLabel" {
				bad = callPath(parent, f)
			}
		}
		if bad == "" {
			c.ok(rule, "diffbase:new", p.relFile(nw.Pos()), "constructing a report leaves the base marking on the profile", "RemoveLabel is not reachable from report.New")
		} else {
			c.bad(rule, "diffbase:new", p.relFile(nw.Pos()), "report.New removes the diff-base label ("+bad+"): the proto output and every later report built on the same profile lose the base marking, so totals and percentages of a diff are no longer relative to the base")
		}
	}
}

// isSetMap: v is a map used as a set (element type bool or struct{}) that the function made
// itself or keeps in a field of its receiver/accumulator.
func isSetMap(v ssa.Value) bool {
	mt, ok := v.Type().Underlying().(*types.Map)
	if !ok {
		return false
	}
	switch et := mt.Elem().Underlying().(type) {
	case *types.Basic:
		if et.Kind() != types.Bool {
			return false
		}
	case *types.Struct:
		if et.NumFields() != 0 {
			return false
		}
	default:
		return false
	}
	switch x := v.(type) {
	case *ssa.MakeMap:
		return true
	case *ssa.UnOp:
		_, isField := x.X.(*ssa.FieldAddr)
		return x.Op == token.MUL && isField
	}
	return false
}

// sameMapRef: both values denote the same map: one SSA value, or loads of the same field of
// the same object.
func sameMapRef(a, b ssa.Value) bool {
	if a == b {
		return true
	}
	la, ok1 := a.(*ssa.UnOp)
	lb, ok2 := b.(*ssa.UnOp)
	if !ok1 || !ok2 {
		return false
	}
	fa, ok1 := la.X.(*ssa.FieldAddr)
	fb, ok2 := lb.X.(*ssa.FieldAddr)
	return ok1 && ok2 && fa.X == fb.X && fa.Field == fb.Field
}

// fieldPairOfOneObject: x and y are reads of two different fields of the same struct object
// (fields of one struct value, or loads through one pointer).
func fieldPairOfOneObject(x, y ssa.Value) (T, fx, fy string, ok bool) {
	base := func(v ssa.Value) (ssa.Value, string, string) {
		switch t := v.(type) {
		case *ssa.Field:
			T, F := fieldOf(t.X.Type(), t.Field)
			return t.X, T, F
		case *ssa.UnOp:
			if fa, ok := t.X.(*ssa.FieldAddr); ok && t.Op == token.MUL {
				T, F := fieldOf(fa.X.Type(), fa.Field)
				return fa.X, T, F
			}
		}
		return nil, "", ""
	}
	bx, tx, nx := base(x)
	by, ty, ny := base(y)
	if bx == nil || by == nil || bx != by || tx != ty || nx == ny {
		return "", "", "", false
	}
	return tx, nx, ny, true
}

// isNodeAccumulation: a call of (*graph.Node).addSample or (*graph.Node).AddToEdgeDiv (not of
// another method that happens to have one of those names).
func isNodeAccumulation(call *ssa.Call) bool {
	callee := call.Call.StaticCallee()
	if callee == nil || (callee.Name() != "addSample" && callee.Name() != "AddToEdgeDiv") {
		return false
	}
	recv := callee.Signature.Recv()
	return recv != nil && structName(recv.Type()) == "graph.Node"
}

// divisorSkipGeneral decides C04-R4 without assuming where the per-sample weights are kept:
// the divisor is whatever the function stored in Options.SampleMeanDivisor returned, followed
// through merges, through struct fields it is stored into (field-based) and into helpers.
// Returns "ok", "bad" or "" (shape not recognised) and a position.
func (c *Check) divisorSkipGeneral(f *ssa.Function) (string, string) {
	p := c.P
	tree := withHelpers(f, 2)
	// fields that hold the divisor
	type fld struct {
		T string
		k int
	}
	dFields := map[fld]bool{}
	isDivCall := func(v ssa.Value) bool {
		call, ok := v.(*ssa.Call)
		if !ok || call.Call.IsInvoke() || call.Call.StaticCallee() != nil {
			return false
		}
		return isFieldLoad(call.Call.Value, "graph.Options", "SampleMeanDivisor")
	}
	var isD func(v ssa.Value, d int) bool
	isD = func(v ssa.Value, d int) bool {
		if d > 6 {
			return false
		}
		switch x := v.(type) {
		case *ssa.Call:
			return isDivCall(x)
		case *ssa.Phi:
			for _, e := range x.Edges {
				if isD(e, d+1) {
					return true
				}
			}
		case *ssa.UnOp:
			if fa, ok := x.X.(*ssa.FieldAddr); ok && x.Op == token.MUL {
				return dFields[fld{typeShort(fa.X.Type()), fa.Field}]
			}
			if vals, simple := cellValues(x.X); simple {
				for _, e := range vals {
					if isD(e, d+1) {
						return true
					}
				}
			}
		case *ssa.Field:
			return dFields[fld{"*" + typeShort(x.X.Type()), x.Field}] || dFields[fld{typeShort(x.X.Type()), x.Field}]
		case *ssa.Convert:
			return isD(x.X, d+1)
		}
		return false
	}
	for changed := true; changed; {
		changed = false
		for _, g := range tree {
			for _, b := range g.Blocks {
				for _, ins := range b.Instrs {
					st, ok := ins.(*ssa.Store)
					if !ok {
						continue
					}
					fa, ok := st.Addr.(*ssa.FieldAddr)
					if !ok || !isD(st.Val, 0) {
						continue
					}
					k := fld{typeShort(fa.X.Type()), fa.Field}
					if !dFields[k] {
						dFields[k] = true
						changed = true
					}
				}
			}
		}
	}
	var assume func(cond ssa.Value) int
	var depth int
	assume = func(cond ssa.Value) int {
		switch x := cond.(type) {
		case *ssa.BinOp:
			if x.Op != token.EQL && x.Op != token.NEQ {
				return 0
			}
			sign := 1
			if x.Op == token.EQL {
				sign = -1
			}
			for _, pair := range [][2]ssa.Value{{x.X, x.Y}, {x.Y, x.X}} {
				if isD(pair[0], 0) && isConstInt(pair[1], 0) {
					return sign // the divisor is not zero
				}
				if isFieldLoad(pair[0], "graph.Options", "SampleMeanDivisor") && isNilConst(pair[1]) {
					return sign // the mean option is on
				}
			}
		case *ssa.Extract:
			// the "use this sample" flag handed back by a helper next to the weights
			if call, ok := x.Tuple.(*ssa.Call); ok && depth < 2 {
				if h := helperCallee(call.Parent(), call); h != nil {
					depth++
					reach, eval := reachUnderEval(h, assume)
					depth--
					res, set := 0, false
					for _, b := range h.Blocks {
						if !reach[b] {
							continue
						}
						if ret, ok := b.Instrs[len(b.Instrs)-1].(*ssa.Return); ok && x.Index < len(ret.Results) {
							d := eval(ret.Results[x.Index])
							if d == 0 || (set && d != res) {
								return 0
							}
							res, set = d, true
						}
					}
					return res
				}
			}
		}
		return 0
	}
	// accumulation sites as seen from f
	sites := effectiveSites(f, func(ins ssa.Instruction) bool {
		call, ok := ins.(*ssa.Call)
		return ok && isNodeAccumulation(call)
	}, 2)
	if len(sites) == 0 {
		return "", ""
	}
	at := sites[0].at.Block()
	// the loops around the first site, outermost first
	var chain []*ssa.BasicBlock
	for h := loopHeaderAround(at); h != nil; {
		chain = append([]*ssa.BasicBlock{h}, chain...)
		if h.Idom() == nil {
			break
		}
		h = loopHeaderAround(h.Idom())
	}
	if len(chain) < 2 {
		return "", ""
	}
	sampleHdr, frameHdr := chain[0], chain[1]
	if iterationSkips(sampleHdr, frameHdr, assume) {
		return "bad", p.relFile(frameHdr.Instrs[0].Pos())
	}
	return "ok", p.relFile(frameHdr.Instrs[0].Pos())
}
