package main

// A-MOD: interprocedural field mod-set.
//
// For a set of root functions, compute every (named struct type, field) that a module
// function reachable through the VTA call graph may write: stores through FieldAddr /
// IndexAddr chains, map updates, and the builtins / standard-library mutators whose
// destination derives from a field load.  The analysis is type- and field-based (no
// points-to): an effect names the struct type and field that is written, whatever object
// it belongs to, and the "root" it was reached from (fresh local allocation, parameter,
// global, other).  Effects on objects allocated in the same function and reached without
// any load are classified fresh and can be excluded by a rule.

import (
	"fmt"
	"go/token"
	"go/types"
	"sort"
	"strings"

	"golang.org/x/tools/go/callgraph"
	"golang.org/x/tools/go/ssa"
)

type rootKind int

const (
	rFresh     rootKind = iota // allocation local to the function, reached with zero loads
	rFreshHeap                 // loaded out of a locally allocated object
	rParam
	rFreeVar
	rGlobal
	rUnknown
)

func (r rootKind) String() string {
	return [...]string{"fresh", "fresh-heap", "param", "freevar", "global", "unknown"}[r]
}

type Effect struct {
	Fn    *ssa.Function
	Pos   token.Pos
	T     string // "profile.Location"; "" when the written container is not field-derived
	F     string // field name; "*" whole object; "[]" elements of a non-field container
	Elem  bool   // the elements of the slice/map held in the field are written, not the field
	Root  rootKind
	RootI int       // parameter index for rParam
	What  string    // store | mapupdate | append | copy | delete | clear | sort | call:<fn>
	Ty    string    // type of the written container / object when T == ""
	Val   ssa.Value // value stored (for store effects), may be nil
}

func (e Effect) Target() string {
	if e.T == "" {
		return "(" + e.Ty + ")" + e.F
	}
	s := e.T + "." + e.F
	if e.Elem {
		s += "[]"
	}
	return s
}

type target struct {
	T, F  string
	Elem  bool
	Ty    string
	Root  rootKind
	RootI int
}

type modAnalyzer struct {
	p     *Program
	cache map[*ssa.Function][]Effect
	// Opaque records dynamic calls with no resolved callee (plug-in boundaries).
	Opaque map[*ssa.Function][]string
	// ExternalArgs records non-module callees that receive a field-derived container.
	ExternalArgs map[string][]string
	// wholeProgram makes Reach follow the raw VTA graph through non-module code.
	wholeProgram bool
}

func newModAnalyzer(p *Program) *modAnalyzer {
	return &modAnalyzer{p: p, cache: map[*ssa.Function][]Effect{}, Opaque: map[*ssa.Function][]string{}, ExternalArgs: map[string][]string{}}
}

func structName(t types.Type) string {
	if n := namedOf(t); n != nil {
		if _, ok := n.Underlying().(*types.Struct); ok {
			return typeShort(n)
		}
	}
	return ""
}

func fieldOf(t types.Type, i int) (string, string) {
	// t is pointer to struct or struct
	var st *types.Struct
	tt := t
	if p, ok := tt.Underlying().(*types.Pointer); ok {
		tt = p.Elem()
	}
	st, _ = tt.Underlying().(*types.Struct)
	if st == nil {
		return "", "?"
	}
	name := structName(tt)
	if name == "" {
		name = "struct{…}"
	}
	return name, st.Field(i).Name()
}

// rootOf classifies the object a value is derived from.
func rootOf(v ssa.Value, loads int, seen map[ssa.Value]bool) (rootKind, int) {
	if seen[v] {
		return rFresh, 0 // cycle through phi: neutral element of the join below
	}
	seen[v] = true
	join := func(a rootKind, ai int, b rootKind, bi int) (rootKind, int) {
		if a == b && ai == bi {
			return a, ai
		}
		if a == rFresh {
			return b, bi
		}
		if b == rFresh {
			return a, ai
		}
		if a == rFreshHeap {
			return b, bi
		}
		if b == rFreshHeap {
			return a, ai
		}
		return rUnknown, 0
	}
	switch x := v.(type) {
	case *ssa.Alloc:
		if loads == 0 {
			return rFresh, 0
		}
		return rFreshHeap, 0
	case *ssa.MakeSlice, *ssa.MakeMap, *ssa.MakeChan:
		if loads == 0 {
			return rFresh, 0
		}
		return rFreshHeap, 0
	case *ssa.Const:
		return rFresh, 0
	case *ssa.Parameter:
		for i, p := range x.Parent().Params {
			if p == x {
				return rParam, i
			}
		}
		return rParam, 0
	case *ssa.FreeVar:
		return rFreeVar, 0
	case *ssa.Global:
		return rGlobal, 0
	case *ssa.FieldAddr:
		return rootOf(x.X, loads, seen)
	case *ssa.Field:
		return rootOf(x.X, loads, seen)
	case *ssa.IndexAddr:
		return rootOf(x.X, loads, seen)
	case *ssa.Index:
		return rootOf(x.X, loads, seen)
	case *ssa.Lookup:
		return rootOf(x.X, loads+1, seen)
	case *ssa.Slice:
		return rootOf(x.X, loads, seen)
	case *ssa.UnOp:
		if x.Op == token.MUL {
			if vals, ok := cellValues(x.X); ok {
				k, ki := rFresh, 0
				for _, e := range vals {
					ek, ei := rootOf(e, loads, seen)
					k, ki = join(k, ki, ek, ei)
				}
				return k, ki
			}
			return rootOf(x.X, loads+1, seen)
		}
		return rUnknown, 0
	case *ssa.TypeAssert:
		return rootOf(x.X, loads, seen)
	case *ssa.ChangeType:
		return rootOf(x.X, loads, seen)
	case *ssa.Convert:
		return rootOf(x.X, loads, seen)
	case *ssa.ChangeInterface:
		return rootOf(x.X, loads, seen)
	case *ssa.MakeInterface:
		return rootOf(x.X, loads, seen)
	case *ssa.SliceToArrayPointer:
		return rootOf(x.X, loads, seen)
	case *ssa.Extract:
		if n, ok := x.Tuple.(*ssa.Next); ok {
			if r, ok := n.Iter.(*ssa.Range); ok {
				return rootOf(r.X, loads+1, seen)
			}
		}
		if ta, ok := x.Tuple.(*ssa.TypeAssert); ok {
			return rootOf(ta.X, loads, seen)
		}
		if lk, ok := x.Tuple.(*ssa.Lookup); ok {
			return rootOf(lk.X, loads+1, seen)
		}
		return rUnknown, 0
	case *ssa.Phi:
		k, ki := rFresh, 0
		for _, e := range x.Edges {
			ek, ei := rootOf(e, loads, seen)
			k, ki = join(k, ki, ek, ei)
		}
		return k, ki
	case *ssa.Call:
		if b, ok := x.Call.Value.(*ssa.Builtin); ok && b.Name() == "append" {
			return rootOf(x.Call.Args[0], loads, seen)
		}
		// a constructor of the module: every return hands out an object allocated in it
		if callee := x.Call.StaticCallee(); callee != nil && fnInModule(callee) && len(callee.Blocks) > 0 && len(seen) < 40 {
			all, n := true, 0
			for _, b := range callee.Blocks {
				if ret, ok := b.Instrs[len(b.Instrs)-1].(*ssa.Return); ok && len(ret.Results) >= 1 {
					n++
					k, _ := rootOf(ret.Results[0], 0, seen)
					if k != rFresh && k != rFreshHeap {
						all = false
					}
				}
			}
			if all && n > 0 {
				if loads == 0 {
					return rFresh, 0
				}
				return rFreshHeap, 0
			}
		}
		return rUnknown, 0
	}
	return rUnknown, 0
}

// containerOf describes the slice/map/array value c whose elements are written.
func containerOf(c ssa.Value, seen map[ssa.Value]bool) []target {
	if seen[c] {
		return nil
	}
	seen[c] = true
	rk, ri := rootOf(c, 0, map[ssa.Value]bool{})
	switch x := c.(type) {
	case *ssa.UnOp:
		if x.Op == token.MUL {
			if vals, ok := cellValues(x.X); ok {
				var out []target
				for _, e := range vals {
					out = append(out, containerOf(e, seen)...)
				}
				return out
			}
			switch a := x.X.(type) {
			case *ssa.FieldAddr:
				T, F := fieldOf(a.X.Type(), a.Field)
				return []target{{T: T, F: F, Elem: true, Root: rk, RootI: ri}}
			case *ssa.IndexAddr:
				// element of a container of containers
				return containerOf(a.X, seen)
			}
		}
	case *ssa.Field:
		T, F := fieldOf(x.X.Type(), x.Field)
		return []target{{T: T, F: F, Elem: true, Root: rk, RootI: ri}}
	case *ssa.Slice:
		return containerOf(x.X, seen)
	case *ssa.Lookup:
		return containerOf(x.X, seen)
	case *ssa.Index:
		return containerOf(x.X, seen)
	case *ssa.ChangeType:
		return containerOf(x.X, seen)
	case *ssa.Convert:
		return containerOf(x.X, seen)
	case *ssa.MakeInterface:
		return containerOf(x.X, seen)
	case *ssa.Extract:
		if n, ok := x.Tuple.(*ssa.Next); ok {
			if r, ok := n.Iter.(*ssa.Range); ok {
				return containerOf(r.X, seen)
			}
		}
		if lk, ok := x.Tuple.(*ssa.Lookup); ok {
			return containerOf(lk.X, seen)
		}
	case *ssa.Phi:
		var out []target
		for _, e := range x.Edges {
			out = append(out, containerOf(e, seen)...)
		}
		return out
	case *ssa.Call:
		if b, ok := x.Call.Value.(*ssa.Builtin); ok && b.Name() == "append" {
			return containerOf(x.Call.Args[0], seen)
		}
	case *ssa.Alloc:
		// pointer to a local array
		return []target{{Ty: typeShort(x.Type()), F: "[]", Root: rk}}
	case *ssa.Const:
		return nil
	}
	return []target{{Ty: typeShort(c.Type()), F: "[]", Root: rk, RootI: ri}}
}

// addrTargets describes the location written by a store through addr.
func addrTargets(addr ssa.Value) []target {
	switch a := addr.(type) {
	case *ssa.FieldAddr:
		T, F := fieldOf(a.X.Type(), a.Field)
		rk, ri := rootOf(a.X, 0, map[ssa.Value]bool{})
		return []target{{T: T, F: F, Root: rk, RootI: ri}}
	case *ssa.IndexAddr:
		return containerOf(a.X, map[ssa.Value]bool{})
	case *ssa.Phi:
		var out []target
		for _, e := range a.Edges {
			out = append(out, addrTargets(e)...)
		}
		return out
	}
	rk, ri := rootOf(addr, 0, map[ssa.Value]bool{})
	t := addr.Type()
	if p, ok := t.Underlying().(*types.Pointer); ok {
		if sn := structName(p.Elem()); sn != "" {
			return []target{{T: sn, F: "*", Root: rk, RootI: ri}}
		}
		return []target{{Ty: typeShort(p.Elem()), F: "*", Root: rk, RootI: ri}}
	}
	return []target{{Ty: typeShort(t), F: "*", Root: rk, RootI: ri}}
}

// stdlib functions that write through an argument: name -> indices of mutated args
// (receiver is index 0 for methods).
var stdMutators = map[string][]int{
	"sort.Sort": {0}, "sort.Stable": {0}, "sort.Slice": {0}, "sort.SliceStable": {0},
	"sort.Strings": {0}, "sort.Ints": {0}, "sort.Float64s": {0},
	"slices.Sort": {0}, "slices.SortFunc": {0}, "slices.SortStableFunc": {0}, "slices.Reverse": {0},
	"encoding/json.Unmarshal": {1}, "encoding/binary.Read": {2}, "io.ReadFull": {1}, "io.ReadAtLeast": {1},
	"(*encoding/json.Decoder).Decode": {1},
}

func calleeName(f *ssa.Function) string {
	if f == nil {
		return ""
	}
	return f.String()
}

func (m *modAnalyzer) direct(f *ssa.Function) []Effect {
	if e, ok := m.cache[f]; ok {
		return e
	}
	var out []Effect
	add := func(ts []target, pos token.Pos, what string, val ssa.Value) {
		for _, t := range ts {
			out = append(out, Effect{Fn: f, Pos: pos, T: t.T, F: t.F, Elem: t.Elem, Root: t.Root, RootI: t.RootI, What: what, Ty: t.Ty, Val: val})
		}
	}
	for _, b := range f.Blocks {
		for _, ins := range b.Instrs {
			switch x := ins.(type) {
			case *ssa.Store:
				add(addrTargets(x.Addr), x.Pos(), "store", x.Val)
			case *ssa.MapUpdate:
				add(containerOf(x.Map, map[ssa.Value]bool{}), x.Pos(), "mapupdate", x.Value)
			case ssa.CallInstruction:
				cc := x.Common()
				if bi, ok := cc.Value.(*ssa.Builtin); ok {
					switch bi.Name() {
					case "append":
						// append writes into the backing array of a re-sliced first argument
						if sl, ok := cc.Args[0].(*ssa.Slice); ok && sl.High != nil {
							add(containerOf(sl.X, map[ssa.Value]bool{}), x.Pos(), "append", nil)
						}
					case "copy":
						add(containerOf(cc.Args[0], map[ssa.Value]bool{}), x.Pos(), "copy", nil)
					case "delete":
						add(containerOf(cc.Args[0], map[ssa.Value]bool{}), x.Pos(), "delete", nil)
					case "clear":
						add(containerOf(cc.Args[0], map[ssa.Value]bool{}), x.Pos(), "clear", nil)
					}
					continue
				}
				if sc := cc.StaticCallee(); sc != nil && !fnInModule(sc) {
					name := calleeName(sc)
					args := cc.Args
					if idx, ok := stdMutators[name]; ok {
						for _, i := range idx {
							if i < len(args) {
								add(containerOf(args[i], map[ssa.Value]bool{}), x.Pos(), "call:"+name, nil)
							}
						}
					} else {
						for _, a := range args {
							switch a.Type().Underlying().(type) {
							case *types.Slice, *types.Map, *types.Pointer:
								for _, t := range containerOf(a, map[ssa.Value]bool{}) {
									if t.T != "" {
										m.ExternalArgs[name] = append(m.ExternalArgs[name], t.T+"."+t.F+" in "+fnName(f))
									}
								}
							}
						}
					}
				}
			}
		}
	}
	m.cache[f] = out
	return out
}

// Reach returns the module functions reachable from roots in the call graph, together
// with one shortest call path per function (for diagnostics).
func (m *modAnalyzer) Reach(roots []*ssa.Function, stop func(*ssa.Function) bool) (map[*ssa.Function]*ssa.Function, []*ssa.Function) {
	if !m.wholeProgram {
		return m.p.MG().Reach(roots, stop)
	}
	cg := m.p.CG()
	parent := map[*ssa.Function]*ssa.Function{}
	var order []*ssa.Function
	queue := []*ssa.Function{}
	for _, r := range roots {
		if r != nil {
			if _, ok := parent[r]; !ok {
				parent[r] = nil
				queue = append(queue, r)
			}
		}
	}
	for len(queue) > 0 {
		f := queue[0]
		queue = queue[1:]
		order = append(order, f)
		n := cg.Nodes[f]
		if n == nil {
			continue
		}
		for _, e := range n.Out {
			c := e.Callee.Func
			if _, ok := parent[c]; ok {
				continue
			}
			if stop != nil && stop(c) {
				continue
			}
			parent[c] = f
			queue = append(queue, c)
		}
		// anonymous functions created here may be stored and invoked later; the VTA graph
		// has the edge where they are invoked, but keep them in scope when it is outside.
		for _, af := range f.AnonFuncs {
			if _, ok := parent[af]; !ok && (stop == nil || !stop(af)) {
				parent[af] = f
				queue = append(queue, af)
			}
		}
	}
	return parent, order
}

func callPath(parent map[*ssa.Function]*ssa.Function, f *ssa.Function) string {
	var parts []string
	for g := f; g != nil; g = parent[g] {
		if fnInModule(g) {
			parts = append(parts, fnName(g))
		} else {
			parts = append(parts, "["+g.String()+"]")
		}
		if len(parts) > 12 {
			parts = append(parts, "…")
			break
		}
	}
	for i, j := 0, len(parts)-1; i < j; i, j = i+1, j-1 {
		parts[i], parts[j] = parts[j], parts[i]
	}
	return strings.Join(parts, " → ")
}

// ModSet collects the effects of every module function reachable from roots.
func (m *modAnalyzer) ModSet(roots []*ssa.Function, stop func(*ssa.Function) bool) ([]Effect, map[*ssa.Function]*ssa.Function, int) {
	parent, order := m.Reach(roots, stop)
	var all []Effect
	n := 0
	for _, f := range order {
		if f.Blocks == nil || !fnInModule(f) {
			continue
		}
		n++
		all = append(all, m.direct(f)...)
	}
	sort.SliceStable(all, func(i, j int) bool {
		if all[i].Target() != all[j].Target() {
			return all[i].Target() < all[j].Target()
		}
		return all[i].Pos < all[j].Pos
	})
	return all, parent, n
}

func dynCallees(cg *callgraph.Graph, f *ssa.Function, site ssa.CallInstruction) []*ssa.Function {
	var out []*ssa.Function
	if n := cg.Nodes[f]; n != nil {
		for _, e := range n.Out {
			if e.Site == site {
				out = append(out, e.Callee.Func)
			}
		}
	}
	return out
}

func (e Effect) String() string {
	return fmt.Sprintf("%s (%s, root=%s) in %s", e.Target(), e.What, e.Root, fnName(e.Fn))
}
