package main

import (
	"bytes"
	"fmt"
	"go/ast"
	"go/parser"
	"go/token"
	"os"
	"path/filepath"
	"sort"
	"strconv"
	"strings"
)

// normalizeIterators rewrites, in an overlay, range statements over the standard library's
// slice and map iterators into the classic loops they stand for:
//
//	for i, v := range slices.Backward(xs) { B }  →  for i := len(xs) - 1; i >= 0; i-- { v := xs[i]; B }
//	for i, v := range slices.All(xs)             →  for i, v := range xs
//	for v := range slices.Values(xs)             →  for _, v := range xs
//	for k := range maps.Keys(m)                  →  for k := range m
//	for v := range maps.Values(m)                →  for _, v := range m
//	for k, v := range maps.All(m)                →  for k, v := range m
//	for c := range slices.Chunk(xs, n) { B }     →  for i := 0; i < len(xs); i += n { e := i + n; if e > len(xs) { e = len(xs) }; c := xs[i:e]; B }
//
// A range over a function turns the loop body into a closure that the iterator calls; the
// loop rules of this checker (dominance inside an iteration, loop-carried values, must-pass
// per iteration) are stated over loops that are visible in the function's own flow graph.
// The rewrite is meaning-preserving (these iterators are specified as exactly these loops)
// and keeps every line where it was, so reported positions stay valid.  Iterators defined
// by the project itself are not rewritten.
func normalizeIterators(dir string, overlay map[string][]byte) map[string][]byte {
	out := map[string][]byte{}
	for k, v := range overlay {
		out[k] = v
	}
	filepath.Walk(dir, func(path string, info os.FileInfo, err error) error {
		if err != nil {
			return nil
		}
		if info.IsDir() {
			base := info.Name()
			if base == "testdata" || base == ".git" || base == "third_party" {
				return filepath.SkipDir
			}
			return nil
		}
		if !strings.HasSuffix(path, ".go") || strings.HasSuffix(path, "_test.go") {
			return nil
		}
		src, ok := out[path]
		if !ok {
			b, err := os.ReadFile(path)
			if err != nil {
				return nil
			}
			src = b
		}
		if !bytes.Contains(src, []byte("range slices.")) && !bytes.Contains(src, []byte("range maps.")) {
			return nil
		}
		if res, changed := rewriteIteratorRanges(path, src); changed {
			out[path] = res
		}
		return nil
	})
	return out
}

type textEdit struct {
	from, to int
	text     string
}

func rewriteIteratorRanges(path string, src []byte) ([]byte, bool) {
	fset := token.NewFileSet()
	file, err := parser.ParseFile(fset, path, src, parser.ParseComments)
	if err != nil {
		return nil, false
	}
	// the names under which the two packages are imported in this file
	pkgName := map[string]string{}
	for _, im := range file.Imports {
		p, _ := strconv.Unquote(im.Path.Value)
		if p == "slices" || p == "maps" {
			n := p
			if im.Name != nil {
				n = im.Name.Name
			}
			pkgName[n] = p
		}
	}
	if len(pkgName) == 0 {
		return nil, false
	}
	off := func(p token.Pos) int { return fset.Position(p).Offset }
	text := func(n ast.Node) string { return string(src[off(n.Pos()):off(n.End())]) }
	var simple func(e ast.Expr) bool
	simple = func(e ast.Expr) bool {
		switch x := e.(type) {
		case *ast.Ident:
			return true
		case *ast.SelectorExpr:
			return simple(x.X)
		case *ast.IndexExpr:
			return simple(x.X) && simple(x.Index)
		case *ast.ParenExpr:
			return simple(x.X)
		case *ast.StarExpr:
			return simple(x.X)
		case *ast.BasicLit:
			return true
		}
		return false
	}
	var edits []textEdit
	used := map[string]bool{}
	labeled := map[*ast.RangeStmt]bool{}
	ast.Inspect(file, func(n ast.Node) bool {
		if ls, ok := n.(*ast.LabeledStmt); ok {
			if rs, ok := ls.Stmt.(*ast.RangeStmt); ok {
				labeled[rs] = true
			}
		}
		return true
	})
	ast.Inspect(file, func(n ast.Node) bool {
		rs, ok := n.(*ast.RangeStmt)
		if !ok {
			return true
		}
		call, ok := rs.X.(*ast.CallExpr)
		if !ok || (len(call.Args) != 1 && len(call.Args) != 2) {
			return true
		}
		sel, ok := call.Fun.(*ast.SelectorExpr)
		if !ok {
			return true
		}
		id, ok := sel.X.(*ast.Ident)
		if !ok || id.Obj != nil {
			return true // a local variable of that name, not the package
		}
		pkg, ok := pkgName[id.Name]
		if !ok {
			return true
		}
		arg := text(call.Args[0])
		name := func(e ast.Expr) string {
			if e == nil {
				return ""
			}
			if i, ok := e.(*ast.Ident); ok {
				return i.Name
			}
			return "?"
		}
		k, v := name(rs.Key), name(rs.Value)
		if k == "?" || v == "?" {
			return true
		}
		if len(call.Args) == 2 {
			// for c := range slices.Chunk(xs, n) { B }  →  the window loop written by hand
			if pkg+"."+sel.Sel.Name != "slices.Chunk" || rs.Value != nil || rs.Tok != token.DEFINE || k == "" || k == "_" || !simple(call.Args[0]) || !simple(call.Args[1]) {
				return true
			}
			size := text(call.Args[1])
			lo := fmt.Sprintf("ic%d_", off(rs.Pos()))
			hi := fmt.Sprintf("ie%d_", off(rs.Pos()))
			head := fmt.Sprintf("for %s := 0; %s < len(%s); %s += %s ", lo, lo, arg, lo, size)
			edits = append(edits, textEdit{off(rs.Pos()), off(rs.Body.Lbrace), head})
			edits = append(edits, textEdit{off(rs.Body.Lbrace) + 1, off(rs.Body.Lbrace) + 1, fmt.Sprintf(" %s := %s + %s; if %s > len(%s) { %s = len(%s) }; %s := %s[%s:%s];", hi, lo, size, hi, arg, hi, arg, k, arg, lo, hi)})
			used[id.Name] = true
			return true
		}
		switch pkg + "." + sel.Sel.Name {
		case "slices.All", "maps.All":
			edits = append(edits, textEdit{off(call.Pos()), off(call.End()), arg})
			used[id.Name] = true
		case "slices.Values", "maps.Values":
			// one iteration variable: the value
			if rs.Value != nil {
				return true
			}
			if rs.Key == nil {
				edits = append(edits, textEdit{off(call.Pos()), off(call.End()), arg})
			} else {
				edits = append(edits, textEdit{off(rs.Key.Pos()), off(rs.Key.End()), "_, " + k})
				edits = append(edits, textEdit{off(call.Pos()), off(call.End()), arg})
			}
			used[id.Name] = true
		case "maps.Keys":
			if rs.Value != nil {
				return true
			}
			edits = append(edits, textEdit{off(call.Pos()), off(call.End()), arg})
			used[id.Name] = true
		case "slices.Backward":
			if rs.Tok != token.DEFINE && rs.Key != nil {
				return true
			}
			idx := k
			if idx == "" || idx == "_" {
				idx = fmt.Sprintf("ib%d_", off(rs.Pos()))
			}
			pre := ""
			if !simple(call.Args[0]) {
				// evaluate the list once, in a block of its own around the loop
				if labeled[rs] {
					return true
				}
				tmp := fmt.Sprintf("il%d_", off(rs.Pos()))
				pre = fmt.Sprintf("{ %s := %s; ", tmp, arg)
				arg = tmp
				edits = append(edits, textEdit{off(rs.End()), off(rs.End()), " }"})
			}
			head := fmt.Sprintf("%sfor %s := len(%s) - 1; %s >= 0; %s-- ", pre, idx, arg, idx, idx)
			edits = append(edits, textEdit{off(rs.Pos()), off(rs.Body.Lbrace), head})
			if v != "" && v != "_" {
				edits = append(edits, textEdit{off(rs.Body.Lbrace) + 1, off(rs.Body.Lbrace) + 1, fmt.Sprintf(" %s := %s[%s];", v, arg, idx)})
			}
			used[id.Name] = true
		}
		return true
	})
	if len(edits) == 0 {
		return nil, false
	}
	sort.Slice(edits, func(i, j int) bool {
		if edits[i].from != edits[j].from {
			return edits[i].from > edits[j].from
		}
		return edits[i].to > edits[j].to
	})
	res := append([]byte{}, src...)
	for _, e := range edits {
		res = append(res[:e.from], append([]byte(e.text), res[e.to:]...)...)
	}
	// keep the imports in use
	var tail []string
	for n := range used {
		switch pkgName[n] {
		case "slices":
			tail = append(tail, "var _ = "+n+".Index[[]int, int]")
		case "maps":
			tail = append(tail, "var _ = "+n+".Keys[map[int]int]")
		}
	}
	sort.Strings(tail)
	res = append(res, []byte("\n"+strings.Join(tail, "\n")+"\n")...)
	return res, true
}
