// Demonstration for the C18 finding "DOT edge to an undeclared node".
// Copy into internal/report/ (package report) and run:
//   go test -run TestC18NoEdgeToUndeclaredNode ./internal/report/
package report

import (
	"bytes"
	"regexp"
	"testing"

	"github.com/google/pprof/profile"
)

func TestC18NoEdgeToUndeclaredNode(t *testing.T) {
	fn := func(id uint64, name string) *profile.Function { return &profile.Function{ID: id, Name: name, Filename: name + ".go"} }
	fMain, fA, fB, fC := fn(1, "main"), fn(2, "a"), fn(3, "b"), fn(4, "c")
	loc := func(id uint64, f *profile.Function) *profile.Location {
		return &profile.Location{ID: id, Address: id * 0x100, Line: []profile.Line{{Function: f, Line: 1}}}
	}
	lMain, lA, lB, lC := loc(1, fMain), loc(2, fA), loc(3, fB), loc(4, fC)
	p := &profile.Profile{
		SampleType: []*profile.ValueType{{Type: "cpu", Unit: "milliseconds"}},
		PeriodType: &profile.ValueType{Type: "cpu", Unit: "milliseconds"},
		Function:   []*profile.Function{fMain, fA, fB, fC},
		Location:   []*profile.Location{lMain, lA, lB, lC},
		Sample: []*profile.Sample{
			// a diff in which the work done in c moved from under b to under a:
			// c's own total cancels, the callers' do not (they have other work too)
			{Location: []*profile.Location{lC, lA, lMain}, Value: []int64{10}},
			{Location: []*profile.Location{lC, lB, lMain}, Value: []int64{-10}},
			{Location: []*profile.Location{lA, lMain}, Value: []int64{5}},
			{Location: []*profile.Location{lB, lMain}, Value: []int64{7}},
		},
	}
	if err := p.CheckValid(); err != nil {
		t.Fatal(err)
	}
	rpt := New(p, &Options{
		OutputFormat: Dot,
		SampleValue:  func(v []int64) int64 { return v[0] },
		SampleUnit:   "milliseconds",
	})
	var buf bytes.Buffer
	if err := Generate(&buf, rpt, nil); err != nil {
		t.Fatal(err)
	}
	declared := map[string]bool{}
	for _, m := range regexp.MustCompile(`(?m)^(N\d+) \[`).FindAllStringSubmatch(buf.String(), -1) {
		declared[m[1]] = true
	}
	for _, m := range regexp.MustCompile(`(?m)^(N\d+) -> (N\d+) \[`).FindAllStringSubmatch(buf.String(), -1) {
		if !declared[m[1]] || !declared[m[2]] {
			t.Errorf("edge %s -> %s refers to a node that is not declared (declared: %v)", m[1], m[2], declared)
		}
	}
}
