// dir: profile
// Fails on google/pprof before the commit "fix: separate the string- and numeric-label
// sections of the merge sample key", passes after it.
package profile

import "testing"

// A string label whose value is "\x00" and a numeric label with value 1 (no units) on the
// same key and stack are different label sets and must stay two samples after Merge.
func TestC03LabelSectionsSeparated(t *testing.T) {
	fn := &Function{ID: 1, Name: "f"}
	loc := &Location{ID: 1, Address: 0x10, Line: []Line{{Function: fn, Line: 1}}}
	p := &Profile{
		SampleType: []*ValueType{{Type: "s", Unit: "count"}},
		PeriodType: &ValueType{Type: "s", Unit: "count"},
		Function:   []*Function{fn},
		Location:   []*Location{loc},
		Sample: []*Sample{
			{Location: []*Location{loc}, Value: []int64{3}, Label: map[string][]string{"k": {"\x00"}}},
			{Location: []*Location{loc}, Value: []int64{5}, NumLabel: map[string][]int64{"k": {1}}},
		},
	}
	m, err := Merge([]*Profile{p})
	if err != nil {
		t.Fatal(err)
	}
	if len(m.Sample) != 2 {
		t.Fatalf("got %d samples, want 2 (label sets differ)", len(m.Sample))
	}
}
