package symbolizer

// Demonstration for the C12-R4 finding (copy into internal/symbolizer/ and run
// `go test -run TestC12 ./internal/symbolizer/`): the fallback simplification strips
// bracketed groups from names that look like demangled C++; a name that consists only of
// such a group ("<lambda>", "<unknown>") becomes the empty string.

import (
	"testing"

	"github.com/google/pprof/profile"
)

func TestC12DemangleNeverEmptiesAName(t *testing.T) {
	for _, name := range []string{"<lambda>", "<unknown>", "(anonymous)::<lambda()>"} {
		p := &profile.Profile{Function: []*profile.Function{{ID: 1, Name: name, SystemName: name}}}
		Demangle(p, false, "")
		if got := p.Function[0].Name; got == "" {
			t.Errorf("Demangle replaced the non-empty name %q by the empty string", name)
		}
	}
}
