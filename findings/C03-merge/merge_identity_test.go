package profile

// Demonstrations for the C03 findings (copy into profile/ and run
// `go test -run TestC03 ./profile/`).

import "testing"

// C03-R2: Location.key stores three attributes per inlined line at i*2, i*2+1, i*2+2 in a
// slice of len*3 slots, so the column of every line but the last is overwritten by the
// function id of the next line: two locations that differ only in that column are
// identified, and their stacks are merged into one.
func TestC03LocationKeyKeepsColumns(t *testing.T) {
	f1 := &Function{ID: 1, Name: "inner"}
	f2 := &Function{ID: 2, Name: "outer"}
	m := &Mapping{ID: 1, Start: 0x1000, Limit: 0x2000, File: "bin"}
	mk := func(id uint64, col int64) *Location {
		return &Location{ID: id, Mapping: m, Address: 0x1100, Line: []Line{
			{Function: f1, Line: 10, Column: col}, // inlined frame: only the column differs
			{Function: f2, Line: 20, Column: 7},
		}}
	}
	l1, l2 := mk(1, 3), mk(2, 4)
	p := &Profile{
		SampleType: []*ValueType{{Type: "samples", Unit: "count"}},
		PeriodType: &ValueType{Type: "cpu", Unit: "ns"},
		Sample: []*Sample{
			{Location: []*Location{l1}, Value: []int64{5}},
			{Location: []*Location{l2}, Value: []int64{6}},
		},
		Location: []*Location{l1, l2},
		Function: []*Function{f1, f2},
		Mapping:  []*Mapping{m},
	}
	if err := p.CheckValid(); err != nil {
		t.Fatal(err)
	}
	merged, err := Merge([]*Profile{p})
	if err != nil {
		t.Fatal(err)
	}
	if len(merged.Sample) != 2 || len(merged.Location) != 2 {
		t.Fatalf("two stacks that differ in the column of an inlined line were merged: %d samples, %d locations, values %v", len(merged.Sample), len(merged.Location), merged.Sample[0].Value)
	}
}

// C03-R3: the merged profile shares the PeriodType and SampleType objects of the first input.
func TestC03MergeDoesNotAliasInputs(t *testing.T) {
	in := &Profile{
		SampleType: []*ValueType{{Type: "samples", Unit: "count"}},
		PeriodType: &ValueType{Type: "cpu", Unit: "ns"},
	}
	out, err := Merge([]*Profile{in})
	if err != nil {
		t.Fatal(err)
	}
	if out.SampleType[0] == in.SampleType[0] {
		t.Errorf("merged profile shares SampleType[0] with its input")
	}
	if out.PeriodType == in.PeriodType {
		t.Errorf("merged profile shares PeriodType with its input")
	}
	out.SampleType[0].Unit = "changed"
	out.PeriodType.Unit = "changed"
	if in.SampleType[0].Unit != "count" || in.PeriodType.Unit != "ns" {
		t.Errorf("modifying the merged profile changed the input: %v %v", in.SampleType[0], in.PeriodType)
	}
}
