package driver

// Demonstrations for the C09 findings (copy into internal/driver/ and run
// `go test -run TestC09 ./internal/driver/`): each call panics on the unrepaired tree.

import (
	"testing"

	"github.com/google/pprof/internal/plugin"
	"github.com/google/pprof/internal/proftest"
	"github.com/google/pprof/profile"
)

func noPanic(t *testing.T, what string, f func()) {
	t.Helper()
	defer func() {
		if r := recover(); r != nil {
			t.Errorf("%s panicked: %v", what, r)
		}
	}()
	f()
}

// C09-R1: a digit string beyond int64 is accepted by the range regexp and turned into a panic.
func TestC09TagFilterRangeOverflow(t *testing.T) {
	noPanic(t, `tagfocus=99999999999999999999`, func() {
		compileTagFilter("tagfocus", "99999999999999999999", nil, &proftest.TestUI{T: t, AllowRx: ".*"}, nil)
	})
	noPanic(t, `tagfocus=1:99999999999999999999`, func() {
		compileTagFilter("tagfocus", "1:99999999999999999999", nil, &proftest.TestUI{T: t, AllowRx: ".*"}, nil)
	})
}

// C09-R2: a build id shorter than two characters is sliced with [:2].
func TestC09ShortBuildID(t *testing.T) {
	t.Setenv("PPROF_BINARY_PATH", t.TempDir())
	p := &profile.Profile{Mapping: []*profile.Mapping{{ID: 1, File: "/bin/x", BuildID: "a"}}}
	noPanic(t, "locateBinaries with build id \"a\"", func() {
		locateBinaries(p, &source{}, &mockObjTool{}, &proftest.TestUI{T: t, AllowRx: ".*"})
	})
}

// C09-R2: the options listing indexes the last sample type of a profile that has none.
func TestC09OptionsWithoutSampleTypes(t *testing.T) {
	noPanic(t, "printCurrentOptions on a profile without sample types", func() {
		printCurrentOptions(&profile.Profile{}, &proftest.TestUI{T: t, AllowRx: ".*"})
	})
}

// C09-R3: the listen address is parsed with the error discarded and the nil URL dereferenced.
func TestC09OpenBrowserBadHost(t *testing.T) {
	noPanic(t, `openBrowser("http://%zz:8080")`, func() {
		openBrowser("http://%zz:8080", &plugin.Options{UI: &proftest.TestUI{T: t, AllowRx: ".*"}})
	})
}
