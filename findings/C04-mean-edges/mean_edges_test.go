package report

// Demonstration for the C04 finding (copy into internal/report/ and run
// `go test -run TestC04 ./internal/report/`): with the mean option node values are divided
// by the sample count, and so are the edge weights shown by dot, but the tree/peek and
// callgrind printers show the undivided edge sums.

import (
	"bytes"
	"strings"
	"testing"

	"github.com/google/pprof/profile"
)

func c04Report(format int) *Report {
	fMain := &profile.Function{ID: 1, Name: "main"}
	fFoo := &profile.Function{ID: 2, Name: "foo"}
	lMain := &profile.Location{ID: 1, Line: []profile.Line{{Function: fMain}}}
	lFoo := &profile.Location{ID: 2, Line: []profile.Line{{Function: fFoo}}}
	p := &profile.Profile{
		SampleType: []*profile.ValueType{{Type: "count", Unit: "count"}, {Type: "bytes", Unit: "B"}},
		Sample: []*profile.Sample{
			{Location: []*profile.Location{lFoo, lMain}, Value: []int64{2, 100}},
			{Location: []*profile.Location{lFoo, lMain}, Value: []int64{2, 100}},
		},
		Location: []*profile.Location{lMain, lFoo},
		Function: []*profile.Function{fMain, fFoo},
	}
	return New(p, &Options{
		OutputFormat:      format,
		SampleValue:       func(v []int64) int64 { return v[1] },
		SampleMeanDivisor: func(v []int64) int64 { return v[0] },
		SampleType:        "bytes", SampleUnit: "B", OutputUnit: "B",
		NodeFraction:      0, EdgeFraction: 0,
	})
}

func TestC04MeanEdgeWeights(t *testing.T) {
	// mean of the only edge main -> foo: 200 bytes over 4 objects = 50
	var dot, tree, cg bytes.Buffer
	if err := Generate(&dot, c04Report(Dot), nil); err != nil {
		t.Fatal(err)
	}
	if !strings.Contains(dot.String(), `label=" 50B"`) {
		t.Fatalf("dot does not show the mean edge weight 50B:\n%s", dot.String())
	}
	if err := Generate(&tree, c04Report(Tree), nil); err != nil {
		t.Fatal(err)
	}
	if strings.Contains(tree.String(), "200B") {
		t.Errorf("tree report shows the undivided edge sum 200B while nodes and dot show the mean 50B:\n%s", tree.String())
	}
	if err := Generate(&cg, c04Report(Callgrind), nil); err != nil {
		t.Fatal(err)
	}
	if strings.Contains(cg.String(), "* * 200") {
		t.Errorf("callgrind report shows the undivided edge sum 200 while the node cost is the mean 50:\n%s", cg.String())
	}
}
