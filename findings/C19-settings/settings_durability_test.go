package driver

// Demonstrations for the C19 findings (copy into internal/driver/ and run
// `go test -run TestC19 ./internal/driver/`).

import (
	"fmt"
	"net/url"
	"path/filepath"
	"strings"
	"sync"
	"testing"
)

// C19-R2: writeSettings truncates and rewrites the file in place, so a reader (every
// page render calls configMenu → readSettings) can observe an empty or partial file; the
// same window is what a crash in the middle of the write leaves behind.
func TestC19SettingsReplacedAtomically(t *testing.T) {
	fname := filepath.Join(t.TempDir(), "settings.json")
	s := &settings{}
	for i := 0; i < 400; i++ {
		s.Configs = append(s.Configs, namedConfig{Name: fmt.Sprint("config", i), config: config{Focus: strings.Repeat("x", 200)}})
	}
	if err := writeSettings(fname, s); err != nil {
		t.Fatal(err)
	}
	done := make(chan struct{})
	go func() {
		defer close(done)
		for i := 0; i < 300; i++ {
			if err := writeSettings(fname, s); err != nil {
				t.Error(err)
				return
			}
		}
	}()
	for {
		select {
		case <-done:
			return
		default:
		}
		got, err := readSettings(fname)
		if err != nil {
			t.Fatalf("reader observed a partially written settings file: %v", err)
		}
		if len(got.Configs) != len(s.Configs) {
			t.Fatalf("reader observed %d of %d configs", len(got.Configs), len(s.Configs))
		}
	}
}

// C19-R3: editSettings is an unlocked read-modify-write; concurrent save requests for
// different names lose updates.
func TestC19ConcurrentSavesAreSerialised(t *testing.T) {
	fname := filepath.Join(t.TempDir(), "settings.json")
	const n = 40
	var wg sync.WaitGroup
	for i := 0; i < n; i++ {
		wg.Add(1)
		go func(i int) {
			defer wg.Done()
			u, _ := url.Parse(fmt.Sprintf("/saveconfig?config=c%d&f=foo%d", i, i))
			if err := setConfig(fname, *u); err != nil {
				t.Error(err)
			}
		}(i)
	}
	wg.Wait()
	got, err := readSettings(fname)
	if err != nil {
		t.Fatal(err)
	}
	if len(got.Configs) != n {
		t.Fatalf("%d concurrent saves left %d configurations in the file", n, len(got.Configs))
	}
}

// C19-R1: tagroot/tagleaf are saved in settings.json but have no URL parameter, so the
// URL built for a saved configuration (the menu entry) does not carry them.
func TestC19SavedOptionsSurviveURLRoundTrip(t *testing.T) {
	saved := defaultConfig()
	saved.TagRoot = "tenant"
	saved.TagLeaf = "request"
	saved.Focus = "main"
	u, _ := saved.makeURL(url.URL{})
	restored := defaultConfig()
	if err := restored.applyURL(u.Query()); err != nil {
		t.Fatal(err)
	}
	if restored != saved {
		t.Fatalf("configuration changed by the URL round trip:\nsaved    %+v\nrestored %+v", saved, restored)
	}
}
