package symbolz

// Demonstration for known finding C12-R3 (copy into internal/symbolz/ and run
// `go test -run TestSparseFunctionIDs ./internal/symbolz/`): a valid, partly symbolized
// profile whose function ids are sparse ({1,2,3,5}) becomes invalid ("multiple functions
// with same id") after remote symbolization, because new functions get len(p.Function)+1.

import (
	"testing"

	"github.com/google/pprof/internal/plugin"
	"github.com/google/pprof/profile"
)

func TestSparseFunctionIDs(t *testing.T) {
	m1 := &profile.Mapping{ID: 1, Start: 0x1000, Limit: 0x5000, File: "/bin/a", HasFunctions: true}
	m2 := &profile.Mapping{ID: 2, Start: 0x8000, Limit: 0x9000, File: "/bin/b"}
	var fns []*profile.Function
	for _, id := range []uint64{1, 2, 3, 5} {
		fns = append(fns, &profile.Function{ID: id, Name: "f", SystemName: "f"})
	}
	l1 := &profile.Location{ID: 1, Mapping: m1, Address: 0x1100, Line: []profile.Line{{Function: fns[3]}}}
	l2 := &profile.Location{ID: 2, Mapping: m2, Address: 0x8100}
	p := &profile.Profile{
		SampleType: []*profile.ValueType{{Type: "samples", Unit: "count"}},
		Sample:     []*profile.Sample{{Location: []*profile.Location{l1, l2}, Value: []int64{1}}},
		Location:   []*profile.Location{l1, l2},
		Function:   fns,
		Mapping:    []*profile.Mapping{m1, m2},
	}
	if err := p.CheckValid(); err != nil {
		t.Fatalf("input profile must be valid: %v", err)
	}
	sources := plugin.MappingSources{"/bin/b": {{Source: "http://localhost:80/pprof/symbolz"}}}
	syms := func(source, post string) ([]byte, error) { return []byte("0x8100 newfunc\n"), nil }
	if err := Symbolize(p, false, sources, syms, nil); err != nil {
		t.Fatal(err)
	}
	if err := p.CheckValid(); err != nil {
		t.Errorf("profile invalid after symbolization: %v", err)
	}
}
