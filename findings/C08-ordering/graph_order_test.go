package graph

// Demonstrations for the C08 findings in internal/graph (copy into internal/graph/ and
// run `go test -run 'TestC08' ./internal/graph/`).  Each test repeats an operation whose
// result must not depend on map iteration order and fails when two runs differ.

import (
	"fmt"
	"testing"
)

func edgeOrder(es []*Edge) string {
	s := ""
	for _, e := range es {
		s += fmt.Sprintf("%s/%s(%d) ", e.Src.Info.Name, e.Src.Info.Objfile, e.Weight)
	}
	return s
}

// C08-R1: edgeList.Less guards on Weight but orders by abs64(Weight): +5 and -5 compare
// as equal and the name tie-break is never reached, so EdgeMap.Sort returns map order.
func TestC08EdgeOrderOppositeSigns(t *testing.T) {
	dest := &Node{Info: NodeInfo{Name: "dest"}, In: EdgeMap{}, Out: EdgeMap{}}
	a := &Node{Info: NodeInfo{Name: "a"}, In: EdgeMap{}, Out: EdgeMap{}}
	b := &Node{Info: NodeInfo{Name: "b"}, In: EdgeMap{}, Out: EdgeMap{}}
	a.AddToEdge(dest, 5, false, false)
	b.AddToEdge(dest, -5, false, false)
	first := edgeOrder(dest.In.Sort())
	for i := 0; i < 200; i++ {
		if got := edgeOrder(dest.In.Sort()); got != first {
			t.Fatalf("edge order depends on map iteration: %q vs %q", first, got)
		}
	}
}

// C08-R1: tags.Less has the same defect for Flat/Cum.
func TestC08TagOrderOppositeSigns(t *testing.T) {
	first := ""
	for i := 0; i < 200; i++ {
		m := TagMap{"x": {Name: "x", Flat: 5, Cum: 5}, "y": {Name: "y", Flat: -5, Cum: -5}}
		var ts []*Tag
		for _, tg := range m {
			ts = append(ts, tg)
		}
		got := ""
		for _, tg := range SortTags(ts, true) {
			got += tg.Name
		}
		if first == "" {
			first = got
		} else if got != first {
			t.Fatalf("tag order depends on map iteration: %q vs %q", first, got)
		}
	}
}

// C08-R3: the edge order ends on PrintableName, which is not injective on nodes: two
// sources with the same printable name but different identity (here: object file) and
// equal weights are unordered.
func TestC08EdgeOrderEqualPrintableNames(t *testing.T) {
	dest := &Node{Info: NodeInfo{Name: "dest"}, In: EdgeMap{}, Out: EdgeMap{}}
	a := &Node{Info: NodeInfo{Name: "f", Objfile: "liba.so"}, In: EdgeMap{}, Out: EdgeMap{}}
	b := &Node{Info: NodeInfo{Name: "f", Objfile: "libb.so"}, In: EdgeMap{}, Out: EdgeMap{}}
	a.AddToEdge(dest, 7, false, false)
	b.AddToEdge(dest, 7, false, false)
	first := edgeOrder(dest.In.Sort())
	for i := 0; i < 200; i++ {
		if got := edgeOrder(dest.In.Sort()); got != first {
			t.Fatalf("edge order depends on map iteration: %q vs %q", first, got)
		}
	}
}

// C08-R2 (E4): edgeEntropyScore adds floating-point terms in map order; the rounded
// score of one and the same node differs between calls.
func TestC08EntropyScoreMapOrder(t *testing.T) {
	for seed := int64(1); seed < 400; seed++ {
		n := &Node{Info: NodeInfo{Name: "n"}, In: EdgeMap{}, Out: EdgeMap{}, Cum: 1 << 52, Flat: 0}
		w := seed
		for k := 0; k < 6; k++ {
			w = (w*6364136223846793005 + 1442695040888963407) & 0x7fffffff
			src := &Node{Info: NodeInfo{Name: fmt.Sprint("s", k)}, In: EdgeMap{}, Out: EdgeMap{}}
			src.AddToEdge(n, w%1000+1, false, false)
		}
		first := entropyScore(n)
		for i := 0; i < 50; i++ {
			if got := entropyScore(n); got != first {
				t.Fatalf("seed %d: entropyScore of the same node differs between calls: %d vs %d", seed, first, got)
			}
		}
	}
}
