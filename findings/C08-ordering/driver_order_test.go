package driver

// Demonstration for the C08 finding in internal/driver (copy into internal/driver/ and run
// `go test -run 'TestC08' ./internal/driver/`).

import (
	"strings"
	"testing"

	"github.com/google/pprof/profile"
)

type c08UI struct {
	stdUI
	msgs []string
}

func (u *c08UI) PrintErr(args ...interface{}) {
	for _, a := range args {
		if s, ok := a.(string); ok {
			u.msgs = append(u.msgs, s)
		}
	}
}

// C08-R2: one warning per numeric label key with conflicting units is printed in map
// order (the same list ends up in the error box of every web UI page).
func TestC08NumLabelUnitWarningsOrder(t *testing.T) {
	p := &profile.Profile{
		SampleType: []*profile.ValueType{{Type: "s", Unit: "count"}},
		Sample: []*profile.Sample{
			{Value: []int64{1}, NumLabel: map[string][]int64{"k1": {1}, "k2": {1}, "k3": {1}}, NumUnit: map[string][]string{"k1": {"bytes"}, "k2": {"bytes"}, "k3": {"bytes"}}},
			{Value: []int64{1}, NumLabel: map[string][]int64{"k1": {1}, "k2": {1}, "k3": {1}}, NumUnit: map[string][]string{"k1": {"kb"}, "k2": {"kb"}, "k3": {"kb"}}},
		},
	}
	first := ""
	for i := 0; i < 100; i++ {
		ui := &c08UI{}
		identifyNumLabelUnits(p, ui)
		got := strings.Join(ui.msgs, "|")
		if first == "" {
			first = got
		} else if got != first {
			t.Fatalf("warnings are printed in map order:\n%s\n%s", first, got)
		}
	}
}
