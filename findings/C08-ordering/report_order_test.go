package report

// Demonstrations for the C08 findings in internal/report (copy into internal/report/ and
// run `go test -run 'TestC08' ./internal/report/`).

import (
	"fmt"
	"regexp"
	"testing"

	"github.com/google/pprof/profile"
)

func c08Report(locs [][3]interface{}, inlined bool) *Report {
	var samples []*profile.Sample
	for i, l := range locs {
		loc := &profile.Location{
			Address: uint64(i + 1),
			Line:    []profile.Line{{Function: &profile.Function{Name: l[0].(string), Filename: l[1].(string)}, Line: int64(l[2].(int))}},
		}
		if inlined {
			// the frame of interest has an inlined callee, so its instructions are listed
			loc.Line = append([]profile.Line{{Function: &profile.Function{Name: "callee", Filename: "callee.go"}, Line: int64(10 + i)}}, loc.Line...)
		}
		samples = append(samples, &profile.Sample{Value: []int64{5}, Location: []*profile.Location{loc}})
	}
	return &Report{
		prof: &profile.Profile{Sample: samples},
		options: &Options{
			Symbol:      regexp.MustCompile("foo|bar"),
			SampleValue: func(s []int64) int64 { return s[0] },
		},
		formatValue: func(v int64) string { return fmt.Sprint(v) },
	}
}

// C08-R2: addresses without an object file ("unprocessed") are handed on in map order,
// so the synthetic instructions listed under one source line change order between runs.
func TestC08WebListUnprocessedOrder(t *testing.T) {
	var locs [][3]interface{}
	for i := 0; i < 8; i++ {
		locs = append(locs, [3]interface{}{"foo", "foo.go", 100})
	}
	first := ""
	for i := 0; i < 100; i++ {
		result, err := MakeWebList(c08Report(locs, true), nil, -1)
		if err != nil {
			t.Fatal(err)
		}
		got := fmt.Sprint(result)
		if first == "" {
			first = got
		} else if got != first {
			t.Fatalf("weblist output differs between runs:\n%s\n---\n%s", first, got)
		}
	}
}

// C08-R3: files are ordered by flat value only; files with equal flat appear in map order.
func TestC08WebListFileOrder(t *testing.T) {
	locs := [][3]interface{}{{"foo", "foo.go", 100}, {"bar", "bar.go", 50}}
	first := ""
	for i := 0; i < 100; i++ {
		result, err := MakeWebList(c08Report(locs, false), nil, 10)
		if err != nil {
			t.Fatal(err)
		}
		got := ""
		for _, f := range result.Files {
			for _, fn := range f.Funcs {
				got += fn.File + " "
			}
		}
		if first == "" {
			first = got
		} else if got != first {
			t.Fatalf("order of files with equal flat differs between runs: %q vs %q", first, got)
		}
	}
}
