package measurement

// Demonstrations for the C15 findings (copy into internal/measurement/ and run
// `go test -run TestC15 ./internal/measurement/`).

import "testing"

// C15-R1 (fixed): the alias "μs" is three bytes long, so sniffUnit's plural trimming
// (len(unit) > 2) turned it into "μ" and the alias never matched: a value given in μs was
// treated as having an unknown unit and was not converted.
func TestC15MicrosecondAlias(t *testing.T) {
	if v, u := Scale(1, "μs", "ns"); v != 1000 || u != "ns" {
		t.Errorf(`Scale(1, "μs", "ns") = %v %q, want 1000 "ns"`, v, u)
	}
	if v, u := Scale(1, "us", "ns"); v != 1000 || u != "ns" {
		t.Errorf(`Scale(1, "us", "ns") = %v %q, want 1000 "ns"`, v, u)
	}
}

// C15-R2 (known finding, not repaired): the canonical names pprof prints for the GCU
// family ("m*GCU", "k*GCU", …) are not accepted as input units, so a printed label cannot
// be read back; lookup is case-insensitive, so "m*GCU" and "M*GCU" could not both be added
// as aliases either.
func TestC15GCUCanonicalNamesReadBack(t *testing.T) {
	label := ScaledLabel(5, "milligcu", "auto") // "5m*GCU"
	if label != "5m*GCU" {
		t.Fatalf("unexpected label %q", label)
	}
	if v, u := Scale(5, "m*GCU", "GCU"); v != 0.005 || u != "GCU" {
		t.Errorf(`Scale(5, "m*GCU", "GCU") = %v %q, want 0.005 "GCU": the unit pprof printed is not understood when read back`, v, u)
	}
}
