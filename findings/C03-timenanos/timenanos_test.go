package profile

// Demonstration for the C03-R7 finding (copy into profile/ and run
// `go test -run TestC03TimeNanos ./profile/`): the merged collection time must be the
// earliest non-zero one, but a later input with TimeNanos == 0 overwrites it.

import "testing"

func TestC03TimeNanosEarliestNonZero(t *testing.T) {
	mk := func(tn int64) *Profile {
		return &Profile{SampleType: []*ValueType{{Type: "s", Unit: "count"}}, PeriodType: &ValueType{Type: "cpu", Unit: "ns"}, TimeNanos: tn}
	}
	for _, tc := range []struct {
		in   []int64
		want int64
	}{{[]int64{5, 0}, 5}, {[]int64{0, 5}, 5}, {[]int64{5, 7, 0}, 5}, {[]int64{7, 0, 5}, 5}, {[]int64{0, 0}, 0}} {
		var ps []*Profile
		for _, tn := range tc.in {
			ps = append(ps, mk(tn))
		}
		m, err := Merge(ps)
		if err != nil {
			t.Fatal(err)
		}
		if m.TimeNanos != tc.want {
			t.Errorf("Merge of TimeNanos %v gives %d, want %d (earliest non-zero)", tc.in, m.TimeNanos, tc.want)
		}
	}
}
