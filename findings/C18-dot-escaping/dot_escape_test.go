package graph

// Demonstration for the C18 findings (copy into internal/graph/ and run
// `go test -run TestC18 ./internal/graph/`): names containing a double quote or a
// backslash in the graph title, in a node's file / object file name and in a label tag
// are written to the DOT output verbatim and break the document's quoting.

import (
	"bytes"
	"fmt"
	"testing"
)

// lexDot is a minimal, independent DOT tokenizer: it only knows quoted strings (with
// backslash escapes) and the punctuation pprof emits outside of them.
func lexDot(doc string) error {
	inStr := false
	line := 1
	for i := 0; i < len(doc); i++ {
		ch := doc[i]
		if ch == '\n' {
			if inStr {
				return fmt.Errorf("line %d: newline inside a quoted string", line)
			}
			line++
			continue
		}
		if inStr {
			switch ch {
			case '\\':
				i++ // escaped character
			case '"':
				inStr = false
			}
			continue
		}
		switch {
		case ch == '"':
			inStr = true
		case ch >= 'a' && ch <= 'z', ch >= 'A' && ch <= 'Z', ch >= '0' && ch <= '9':
		case ch == ' ', ch == '_', ch == '[', ch == ']', ch == '{', ch == '}', ch == '=', ch == '-', ch == '>', ch == ',', ch == ';', ch == '.', ch == '#':
		default:
			return fmt.Errorf("line %d: unexpected character %q outside a quoted string", line, ch)
		}
	}
	if inStr {
		return fmt.Errorf("unterminated string at end of document")
	}
	return nil
}

func c18Graph(info NodeInfo, tag string) *Graph {
	n := &Node{Info: info, Flat: 10, Cum: 10, In: EdgeMap{}, Out: EdgeMap{}, LabelTags: TagMap{}, NumericTags: map[string]TagMap{}}
	if tag != "" {
		n.LabelTags[tag] = &Tag{Name: tag, Flat: 10, Cum: 10}
	}
	return &Graph{Nodes: Nodes{n}}
}

func TestC18DotEscaping(t *testing.T) {
	cfgFor := func(title string) *DotConfig {
		return &DotConfig{Title: title, Labels: []string{"legend"}, FormatValue: func(v int64) string { return fmt.Sprint(v) }, Total: 10}
	}
	for _, tc := range []struct {
		name  string
		title string
		info  NodeInfo
		tag   string
	}{
		{"plain", "binary", NodeInfo{Name: "main", File: "main.go", Lineno: 3}, "key:value"},
		{"title", `bin"ary`, NodeInfo{Name: "main"}, ""},
		{"file", "binary", NodeInfo{Name: "main", File: `dir/ma"in.go`, Lineno: 3}, ""},
		{"objfile", "binary", NodeInfo{Address: 0x1000, Objfile: `/lib/li"b.so`}, ""},
		{"labeltag", "binary", NodeInfo{Name: "main"}, `key:va"lue`},
		{"backslash", `bin\`, NodeInfo{Name: "main"}, `key:value\`},
	} {
		var buf bytes.Buffer
		ComposeDot(&buf, c18Graph(tc.info, tc.tag), &DotAttributes{}, cfgFor(tc.title))
		if err := lexDot(buf.String()); err != nil {
			t.Errorf("%s: DOT output is not well formed: %v\n%s", tc.name, err, buf.String())
		}
	}
}
