// Demonstration for the C07 finding "ScaleN drops samples that still carry weight".
// Copy into profile/ (package profile) and run: go test -run TestC07ScaleNKeepsSamplesWithUnscaledWeight ./profile/
package profile

import "testing"

func TestC07ScaleNKeepsSamplesWithUnscaledWeight(t *testing.T) {
	p := &Profile{
		SampleType: []*ValueType{{Type: "samples", Unit: "count"}, {Type: "cpu", Unit: "nanoseconds"}},
		Sample: []*Sample{
			{Value: []int64{5, 0}},   // weight only in the column that is not scaled
			{Value: []int64{7, 400}}, // weight in both
		},
	}
	// Harmonising units scales one column only (e.g. nanoseconds -> microseconds).
	if err := p.ScaleN([]float64{1, 0.001}); err != nil {
		t.Fatal(err)
	}
	var total int64
	for _, s := range p.Sample {
		total += s.Value[0]
	}
	if len(p.Sample) != 2 || total != 12 {
		t.Errorf("after scaling only the second column: %d samples, first-column total %d; want 2 samples, total 12 (the unscaled column must be conserved)", len(p.Sample), total)
	}
}
